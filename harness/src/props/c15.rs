//! C15 — spatial tracks: loudness from distance, balance from direction, needs a listener.
//!
//! E1 grid: every scene of a finite lattice (listener position x orientation x emitter position x
//! distance range x attenuation curve x strength) is rendered through the real mixer
//! (manager -> listener -> spatial sub-track -> constant stereo sound with L != R) and the
//! renderings are related by the laws of the statement: the level factorises into an attenuation
//! that depends on distance only (1 within min, 0 at/beyond max, non-increasing, on the configured
//! curve) and two ear gains in [1-s, 1] that favour the emitter's side, swap under mirroring through
//! the median plane and do not change under a common rigid motion. Scenario cases cover far-apart
//! (1e6) scenes, degenerate ranges, listener add/drop histories, nesting, parameters mapped from
//! the listener distance and position/orientation/strength tweens.

use crate::engine::{hash64, Check, Ctx, Level, Tier};
use crate::json::J;
use crate::rig::{self, catch, Manager};
use kira::effect::volume_control::VolumeControlBuilder;
use kira::effect::{Effect, EffectBuilder};
use kira::info::Info;
use kira::listener::ListenerHandle;
use kira::sound::{Sound, SoundData};
use kira::track::{MainTrackBuilder, SpatialTrackBuilder, SpatialTrackHandle, TrackBuilder};
use kira::{Decibels, Easing, Frame, Mapping, Parameter, StartTime, Tween, Value};
use std::sync::{Arc, Mutex};
use std::time::Duration;

pub struct C15;

const SR: u32 = 64;
const IBS: usize = 4;
const IN: (f32, f32) = (0.5, 0.25);
const MONO: f64 = 0.375;

// ---------------------------------------------------------------------------------------------
// f64 vectors / quaternions used to build inputs and to judge (independent of glam)

type V3 = [f64; 3];
#[derive(Clone, Copy, Debug)]
struct Q {
	x: f64,
	y: f64,
	z: f64,
	w: f64,
}
const QID: Q = Q { x: 0.0, y: 0.0, z: 0.0, w: 1.0 };

fn snap(x: f64) -> f64 {
	if (x - x.round()).abs() < 1e-9 {
		x.round() + 0.0
	} else {
		x
	}
}
fn axis_angle(axis: V3, deg: f64) -> Q {
	let n = dot(axis, axis).sqrt();
	let h = deg.to_radians() / 2.0;
	let s = h.sin() / n;
	Q { x: axis[0] * s, y: axis[1] * s, z: axis[2] * s, w: h.cos() }
}
fn qmul(a: Q, b: Q) -> Q {
	Q {
		w: a.w * b.w - a.x * b.x - a.y * b.y - a.z * b.z,
		x: a.w * b.x + a.x * b.w + a.y * b.z - a.z * b.y,
		y: a.w * b.y - a.x * b.z + a.y * b.w + a.z * b.x,
		z: a.w * b.z + a.x * b.y - a.y * b.x + a.z * b.w,
	}
}
fn qrot(q: Q, v: V3) -> V3 {
	let p = qmul(qmul(q, Q { x: v[0], y: v[1], z: v[2], w: 0.0 }), Q { x: -q.x, y: -q.y, z: -q.z, w: q.w });
	[snap(p.x), snap(p.y), snap(p.z)]
}
fn dot(a: V3, b: V3) -> f64 { a[0] * b[0] + a[1] * b[1] + a[2] * b[2] }
fn sub(a: V3, b: V3) -> V3 { [a[0] - b[0], a[1] - b[1], a[2] - b[2]] }
fn add(a: V3, b: V3) -> V3 { [a[0] + b[0], a[1] + b[1], a[2] + b[2]] }
fn scale(a: V3, k: f64) -> V3 { [a[0] * k, a[1] * k, a[2] * k] }
fn len(a: V3) -> f64 { dot(a, a).sqrt() }
fn mv(v: V3) -> mint::Vector3<f32> { mint::Vector3 { x: v[0] as f32, y: v[1] as f32, z: v[2] as f32 } }
fn mq(q: Q) -> mint::Quaternion<f32> { mint::Quaternion { v: mint::Vector3 { x: q.x as f32, y: q.y as f32, z: q.z as f32 }, s: q.w as f32 } }
fn maxabs(vs: &[V3]) -> f64 { vs.iter().flat_map(|v| v.iter()).fold(1.0f64, |m, x| m.max(x.abs())) }

// ---------------------------------------------------------------------------------------------
// the lattice

fn coords(tier: Tier) -> Vec<f64> { tier.pick(vec![0.0, 1.0, -1.0, 2.0, -2.0, 3.0, -3.0], vec![0.0, 1.0, -1.0, 2.0, -2.0, 3.0, -3.0, 5.0, -5.0]) }
fn emitters(tier: Tier) -> Vec<V3> {
	let c = coords(tier);
	let mut v = vec![];
	for &x in &c {
		for &y in &c {
			for &z in &c {
				v.push([x, y, z]);
			}
		}
	}
	v
}
fn listener_positions(tier: Tier) -> Vec<V3> {
	let mut v = vec![[0.0, 0.0, 0.0], [1.0, 0.0, -3.0], [-3.0, 3.0, 1.0]];
	if tier == Tier::Thorough {
		v.push([0.0, -1.0, 0.0]);
		v.push([2.0, 2.0, 2.0]);
	}
	v
}
fn orientations(tier: Tier) -> Vec<(&'static str, Q, bool)> {
	// (name, quaternion, axis-aligned)
	let mut v = vec![
		("identity", QID, true),
		("yaw90", axis_angle([0.0, 1.0, 0.0], 90.0), true),
		("yaw180", axis_angle([0.0, 1.0, 0.0], 180.0), true),
		("pitch90", axis_angle([1.0, 0.0, 0.0], 90.0), true),
		("roll90", axis_angle([0.0, 0.0, 1.0], 90.0), true),
		("rot37about(1,1,0)", axis_angle([1.0, 1.0, 0.0], 37.0), false),
	];
	if tier == Tier::Thorough {
		let y = axis_angle([0.0, 1.0, 0.0], 90.0);
		v.push(("yaw90(negated quaternion)", Q { x: -y.x, y: -y.y, z: -y.z, w: -y.w }, true));
		v.push(("yaw45", axis_angle([0.0, 1.0, 0.0], 45.0), false));
		v.push(("rot120about(1,1,1)", axis_angle([1.0, 1.0, 1.0], 120.0), true));
	}
	v
}
fn ranges(tier: Tier) -> Vec<(f32, f32)> {
	tier.pick(vec![(1.0, 100.0), (0.0, 10.0), (2.0, 2.5)], vec![(1.0, 100.0), (0.0, 10.0), (2.0, 2.5), (0.5, 4.0), (3.0, 1000.0)])
}
fn curves(tier: Tier) -> Vec<Option<Easing>> {
	let mut v = vec![None, Some(Easing::Linear), Some(Easing::InPowi(2)), Some(Easing::OutPowf(1.5))];
	if tier == Tier::Thorough {
		v.extend([Easing::InPowi(3), Easing::OutPowi(2), Easing::InOutPowi(2), Easing::InPowf(1.5), Easing::InOutPowf(2.5)].map(Some));
	}
	v
}
fn strengths(tier: Tier) -> Vec<f32> { tier.pick(vec![0.0, 0.5, 0.75, 1.0, 1.5], vec![0.0, 0.25, 0.5, 0.75, 1.0, 1.5]) }
struct Motion {
	name: &'static str,
	r: Q,
	t: V3,
	/// maps the integer lattice onto itself (distances stay exactly representable)
	lattice: bool,
}
impl Motion {
	fn kind(&self) -> &'static str {
		if self.r.w == 1.0 {
			"pure translation"
		} else {
			"rotation"
		}
	}
}
fn motions(tier: Tier) -> Vec<Motion> {
	let mut v = vec![
		Motion { name: "translate(50,-20,7)", r: QID, t: [50.0, -20.0, 7.0], lattice: true },
		Motion { name: "rotY90+translate(-3,0,1)", r: axis_angle([0.0, 1.0, 0.0], 90.0), t: [-3.0, 0.0, 1.0], lattice: true },
		Motion { name: "rotX90+translate(0,5,0)", r: axis_angle([1.0, 0.0, 0.0], 90.0), t: [0.0, 5.0, 0.0], lattice: true },
		Motion { name: "rotZ180", r: axis_angle([0.0, 0.0, 1.0], 180.0), t: [0.0; 3], lattice: true },
		Motion { name: "rot37about(1,1,0)+translate(2,-1,3)", r: axis_angle([1.0, 1.0, 0.0], 37.0), t: [2.0, -1.0, 3.0], lattice: false },
	];
	if tier == Tier::Thorough {
		v.push(Motion { name: "rot120about(1,1,1)", r: axis_angle([1.0, 1.0, 1.0], 120.0), t: [0.0; 3], lattice: true });
		v.push(Motion { name: "translate(-50,50,-50)", r: QID, t: [-50.0, 50.0, -50.0], lattice: true });
		v.push(Motion { name: "rot73about(0.3,-1,0.5)+translate(10,-10,10)", r: axis_angle([0.3, -1.0, 0.5], 73.0), t: [10.0, -10.0, 10.0], lattice: false });
	}
	v
}
fn curve_name(c: Option<Easing>) -> String {
	match c {
		None => "None".into(),
		Some(e) => format!("{:?}", e),
	}
}

// ---------------------------------------------------------------------------------------------
// reference: the documented easing curves and the distance attenuation

fn ease(e: Easing, mut x: f64) -> f64 {
	match e {
		Easing::Linear => x,
		Easing::InPowi(p) => x.powi(p),
		Easing::OutPowi(p) => 1.0 - (1.0 - x).powi(p),
		Easing::InOutPowi(p) => {
			x *= 2.0;
			if x < 1.0 {
				0.5 * x.powi(p)
			} else {
				1.0 - 0.5 * (2.0 - x).powi(p)
			}
		}
		Easing::InPowf(p) => x.powf(p),
		Easing::OutPowf(p) => 1.0 - (1.0 - x).powf(p),
		Easing::InOutPowf(p) => {
			x *= 2.0;
			if x < 1.0 {
				0.5 * x.powf(p)
			} else {
				1.0 - 0.5 * (2.0 - x).powf(p)
			}
		}
	}
}
/// amplitude at distance d: relative volume 1 -> 0 dB, 0 -> silence (-60 dB and below is 0)
fn att_ref(range: (f32, f32), curve: Option<Easing>, d: f64) -> f64 {
	let Some(c) = curve else { return 1.0 };
	let (lo, hi) = (range.0 as f64, range.1 as f64);
	let rel = (d.clamp(lo, hi) - lo) / (hi - lo);
	let db = -60.0 * (1.0 - ease(c, 1.0 - rel));
	if db <= -60.0 {
		0.0
	} else {
		10f64.powf(db / 20.0)
	}
}
/// how much the reference attenuation can move when the distance is only known to +-delta
fn att_slack(range: (f32, f32), curve: Option<Easing>, d: f64, delta: f64) -> f64 {
	let a = att_ref(range, curve, d);
	(att_ref(range, curve, (d - delta).max(0.0)) - a).abs().max((att_ref(range, curve, d + delta) - a).abs())
}

// ---------------------------------------------------------------------------------------------
// probes

struct ConstSound(Frame);
impl Sound for ConstSound {
	fn process(&mut self, out: &mut [Frame], _dt: f64, _info: &Info) {
		out.fill(self.0);
	}
	fn finished(&self) -> bool { false }
}
struct ConstData(Frame);
impl SoundData for ConstData {
	type Error = ();
	type Handle = ();
	fn into_sound(self) -> Result<(Box<dyn Sound>, ()), ()> { Ok((Box::new(ConstSound(self.0)), ())) }
}
fn input() -> ConstData { ConstData(Frame::new(IN.0, IN.1)) }

#[derive(Default, Clone, Copy)]
struct Seen {
	calls: u64,
	distance: Option<f32>,
	param: f64,
}
/// pass-through effect that records `info.listener_distance()` and a parameter mapped from it
struct DistProbe {
	seen: Arc<Mutex<Seen>>,
	param: Parameter<f64>,
}
struct DistProbeBuilder(Arc<Mutex<Seen>>);
const PROBE_DEFAULT: f64 = -7.0;
impl EffectBuilder for DistProbeBuilder {
	type Handle = ();
	fn build(self) -> (Box<dyn Effect>, ()) {
		let mapping = Mapping { input_range: (0.0, 10.0), output_range: (0.0, 1.0), easing: Easing::Linear };
		(Box::new(DistProbe { seen: self.0, param: Parameter::new(Value::FromListenerDistance(mapping), PROBE_DEFAULT) }), ())
	}
}
impl Effect for DistProbe {
	fn process(&mut self, input: &mut [Frame], dt: f64, info: &Info) {
		self.param.update(dt * input.len() as f64, info);
		let mut s = self.seen.lock().unwrap();
		s.calls += 1;
		s.distance = info.listener_distance();
		s.param = self.param.value();
	}
}

// ---------------------------------------------------------------------------------------------
// rendering

#[derive(Clone, Copy, Debug)]
struct Sp {
	range: (f32, f32),
	curve: Option<Easing>,
	s: f32,
}
fn sp_builder(sp: Sp) -> SpatialTrackBuilder {
	SpatialTrackBuilder::new().sound_capacity(2).sub_track_capacity(2).distances(sp.range).attenuation_function(sp.curve).spatialization_strength(sp.s)
}
fn plain_builder() -> TrackBuilder { TrackBuilder::new().sound_capacity(2).sub_track_capacity(2) }
fn mgr() -> Manager { rig::manager(SR, IBS, rig::caps(4), MainTrackBuilder::new().sound_capacity(2)) }
const INSTANT: Tween = Tween { start_time: StartTime::Immediate, duration: Duration::ZERO, easing: Easing::Linear };
fn tween_frames(n: u64) -> Tween {
	Tween { start_time: StartTime::Immediate, duration: Duration::from_secs_f64(n as f64 / SR as f64), easing: Easing::Linear }
}

/// n callbacks of IBS frames; Err = audio-thread panic
fn pump(m: &mut Manager, n: usize, out: &mut Vec<(f32, f32)>) -> Result<(), String> {
	for _ in 0..n {
		let rep = rig::render_stereo(m, IBS, out);
		if let Some(p) = rep.panic {
			return Err(p);
		}
	}
	Ok(())
}

#[derive(Clone, Copy, Debug)]
struct Scene {
	lpos: V3,
	lq: Q,
	epos: V3,
	sp: Sp,
}
impl Scene {
	fn desc(&self) -> String {
		format!(
			"listener position={:?} orientation(x,y,z,w)=({},{},{},{}) emitter position={:?} distances={:?} curve={} strength={} input=constant (L,R)={:?}, sample rate {} internal buffer {}, 2 callbacks of {} frames",
			self.lpos, self.lq.x as f32, self.lq.y as f32, self.lq.z as f32, self.lq.w as f32, self.epos, self.sp.range, curve_name(self.sp.curve), self.sp.s, IN, SR, IBS, IBS
		)
	}
	fn distance(&self) -> f64 { len(sub(self.epos, self.lpos)) }
	fn right(&self) -> V3 { qrot(self.lq, [1.0, 0.0, 0.0]) }
	/// distance from the emitter to the nearer ear (ears 0.1 left/right of the listener position)
	fn ear_clearance(&self) -> f64 {
		let r = scale(self.right(), 0.1);
		len(sub(self.epos, add(self.lpos, r))).min(len(sub(self.epos, sub(self.lpos, r)))).max(1e-3)
	}
	fn moved(&self, m: &Motion) -> Scene {
		Scene { lpos: add(qrot(m.r, self.lpos), m.t), lq: qmul(m.r, self.lq), epos: add(qrot(m.r, self.epos), m.t), sp: self.sp }
	}
	fn mirrored(&self) -> Scene {
		let n = self.right();
		let k = dot(sub(self.epos, self.lpos), n);
		let e = sub(self.epos, scale(n, 2.0 * k));
		Scene { epos: [snap(e[0]), snap(e[1]), snap(e[2])], ..*self }
	}
	/// tolerance for comparing this scene with a transformed copy: f32 resolution `delta` of the
	/// positions, seen through the attenuation slope and the direction of the ears
	fn tol(&self, delta: f64, dist_delta: f64) -> f64 {
		let a = att_slack(self.sp.range, self.sp.curve, self.distance(), dist_delta);
		1e-6 + 0.5 * a + (self.sp.s.clamp(0.0, 1.0) as f64) * delta / self.ear_clearance()
	}
}

/// the settled output frame (last frame of the second callback); every frame must be finite
fn render(sc: &Scene, ctx: &mut Ctx, what: &str) -> Option<(f64, f64)> {
	ctx.evals += 1;
	let r = catch(|| {
		let mut m = mgr();
		let l = m.add_listener(mv(sc.lpos), mq(sc.lq)).expect("listener");
		let mut t = m.add_spatial_sub_track(&l, mv(sc.epos), sp_builder(sc.sp)).expect("track");
		t.play(input()).expect("play");
		let mut out = vec![];
		let r = pump(&mut m, 2, &mut out);
		drop((t, l));
		r.map(|_| out)
	});
	let out = match r {
		Ok(Ok(o)) => o,
		Ok(Err(p)) | Err(p) => {
			ctx.fail(format!("panic: {} :: {}", p, what), sc.desc());
			return None;
		}
	};
	if let Some(i) = out.iter().position(|f| !f.0.is_finite() || !f.1.is_finite()) {
		ctx.fail(format!("output not finite :: {}", what), format!("{} -> frame {} = {:?}", sc.desc(), i, out[i]));
		return None;
	}
	let last = out[out.len() - 1];
	if out.iter().any(|f| *f != last) {
		ctx.fail(format!("static scene does not render a constant level :: {}", what), format!("{} -> {:?}", sc.desc(), out));
	}
	ctx.outcome(hash64(&((last.0 * 4096.0).round() as i32, (last.1 * 4096.0).round() as i32)));
	Some((last.0 as f64, last.1 as f64))
}

// ---------------------------------------------------------------------------------------------
// part A: the lattice and its laws

fn lattice_case(tier: Tier, range: (f32, f32), lpos: V3, oname: &str, lq: Q, aligned: bool, ctx: &mut Ctx) {
	let cs = curves(tier);
	let ss = strengths(tier);
	let ms = motions(tier);
	let mut by_dist: Vec<Vec<(i64, f64, V3)>> = vec![vec![]; cs.len()];
	let mut ord = 0u64;
	for epos in emitters(tier) {
		let mut gains_none: Vec<Option<(f64, f64)>> = vec![None; ss.len()];
		for (ci, &curve) in cs.iter().enumerate() {
			let cn = curve_name(curve);
			let mut att = None;
			for (si, &s) in ss.iter().enumerate() {
				let sc = Scene { lpos, lq, epos, sp: Sp { range, curve, s } };
				ord += 1;
				ctx.sample(ord, || sc.desc());
				let Some(o) = render(&sc, ctx, "lattice scene") else { continue };
				if o != (0.0, 0.0) {
					ctx.nontrivial_extra += 1;
				}
				let d = sc.distance();
				let detail = |extra: String| format!("{} -> output {:?}; {}", sc.desc(), o, extra);
				if s == 0.0 {
					// strength 0: out == in x attenuation per channel
					let (al, ar) = (o.0 / IN.0 as f64, o.1 / IN.1 as f64);
					let zone = if d <= range.0 as f64 { "within min" } else if d >= range.1 as f64 { "at/beyond max" } else { "between" };
					let r = att_ref(range, curve, d);
					let unity = o == (IN.0 as f64, IN.1 as f64);
					if curve.is_none() && !unity {
						ctx.fail("attenuation: curve None does not leave the level alone", detail(format!("distance {}", d)));
						continue;
					} else if curve.is_some() && d <= range.0 as f64 && !unity {
						ctx.fail(format!("attenuation: not unity within min distance :: curve={}", cn), detail(format!("distance {} out/in ({}, {})", d, al, ar)));
						continue;
					} else if curve.is_some() && d >= range.1 as f64 && o != (0.0, 0.0) {
						ctx.fail(format!("attenuation: not zero at/beyond max distance :: curve={}", cn), detail(format!("distance {} out/in ({}, {})", d, al, ar)));
						continue;
					} else if (al - ar).abs() > 1e-6 {
						ctx.fail(format!("strength 0: left and right are not scaled alike (signal panned or mixed) :: curve={}", cn), detail(format!("out/in = ({}, {})", al, ar)));
						continue;
					} else if !(0.0..=1.0).contains(&al) {
						ctx.fail(format!("attenuation: outside [0,1] :: curve={} {}", cn, zone), detail(format!("distance {} attenuation {}", d, al)));
						continue;
					} else if (al - r).abs() > 1e-6 + 1e-4 * r + att_slack(range, curve, d, 1e-6 * d.max(1.0)) {
						ctx.fail(format!("attenuation: off the configured curve :: curve={} {}", cn, zone), detail(format!("distance {} attenuation {} reference {}", d, al, r)));
					}
					att = Some(al);
					by_dist[ci].push((dot(sub(epos, lpos), sub(epos, lpos)).round() as i64, al, epos));
				} else {
					let Some(a) = att else { continue };
					if a == 0.0 {
						if o != (0.0, 0.0) {
							ctx.fail(format!("level does not factorise: attenuation is 0 at strength 0 but the track is audible at strength > 0 :: curve={}", cn), detail(format!("distance {}", d)));
						}
						continue;
					}
					let g = (o.0 / (MONO * a), o.1 / (MONO * a));
					let lo = 1.0 - s as f64;
					for (ear, v) in [("left", g.0), ("right", g.1)] {
						if v < lo - 1e-5 || v > 1.0 + 1e-5 {
							ctx.fail(format!("ear gain outside [1 - strength, 1] :: ear={}", ear), detail(format!("gains {:?} attenuation {}", g, a)));
						}
					}
					let side = dot(sub(epos, lpos), sc.right());
					if side.abs() < 1e-9 {
						if (g.0 - g.1).abs() > 1e-5 {
							ctx.fail("emitter on the median plane but the ears differ", detail(format!("gains {:?}", g)));
						}
					} else if (side > 0.0 && g.1 < g.0 - 1e-6) || (side < 0.0 && g.0 < g.1 - 1e-6) {
						ctx.fail(format!("the ear on the emitter's side is quieter :: emitter on the {}", if side > 0.0 { "right" } else { "left" }), detail(format!("gains (L,R) {:?}; offset along the listener's right axis {}", g, side)));
					}
					if curve.is_none() {
						gains_none[si] = Some(g);
					} else if let Some(g0) = gains_none[si] {
						if (g.0 - g0.0).abs() > 1e-5 || (g.1 - g0.1).abs() > 1e-5 {
							ctx.fail(format!("level does not factorise: ear gains depend on the attenuation :: curve={}", cn), detail(format!("gains {:?} with this curve (attenuation {}), {:?} with curve None", g, a, g0)));
						}
					}
				}
				// mirror through the listener's median plane: the ears swap (at strength 0: nothing changes)
				let mi = sc.mirrored();
				if let Some(om) = render(&mi, ctx, "mirrored lattice scene") {
					let tol = if aligned { 1e-6 } else { 1e-5f64.max(sc.tol(2e-6, 2e-6)) };
					let want = if s == 0.0 { o } else { (o.1, o.0) };
					if (om.0 - want.0).abs() > tol || (om.1 - want.1).abs() > tol {
						let sig = if s == 0.0 { "mirroring the emitter changes an unpanned (strength 0) level" } else { "mirroring the emitter through the median plane does not swap the ears" };
						ctx.fail(format!("{} :: {} orientation", sig, if aligned { "axis-aligned" } else { "oblique" }), detail(format!("orientation {}; mirrored emitter {:?} -> output {:?}", oname, mi.epos, om)));
					}
				}
				// a rigid motion applied to listener and emitter together changes nothing
				for m in &ms {
					let mo = sc.moved(m);
					let Some(om) = render(&mo, ctx, "moved lattice scene") else { continue };
					let ulp = maxabs(&[mo.lpos, mo.epos]) * 2f64.powi(-23);
					let tol = 1e-5f64.max(sc.tol(2.0 * ulp, if m.lattice { 0.0 } else { 4.0 * ulp }));
					if (om.0 - o.0).abs() > tol || (om.1 - o.1).abs() > tol {
						ctx.fail(
							format!("a common rigid motion of listener and emitter changes the output :: {}", m.kind()),
							detail(format!("motion {}; moved scene: {} -> output {:?} (tolerance {:e})", m.name, mo.desc(), om, tol)),
						);
					}
				}
			}
		}
	}
	// attenuation is a non-increasing function of distance alone
	for (ci, list) in by_dist.iter_mut().enumerate() {
		list.sort_by(|a, b| a.0.cmp(&b.0).then(b.1.partial_cmp(&a.1).unwrap()));
		for w in list.windows(2) {
			let what = format!("listener position={:?} orientation={} distances={:?} curve={}: emitter {:?} (distance^2 {}) attenuation {} vs emitter {:?} (distance^2 {}) attenuation {}", lpos, oname, range, curve_name(cs[ci]), w[0].2, w[0].0, w[0].1, w[1].2, w[1].0, w[1].1);
			if w[0].0 == w[1].0 && (w[0].1 - w[1].1).abs() > 1e-6 {
				ctx.fail(format!("attenuation: equal distances attenuated differently :: curve={}", curve_name(cs[ci])), what);
			} else if w[1].1 > w[0].1 + 1e-6 {
				ctx.fail(format!("attenuation: increases with distance :: curve={}", curve_name(cs[ci])), what);
			}
		}
	}
}

// ---------------------------------------------------------------------------------------------
// part B: far-apart scenes (finiteness clause), degenerate ranges

fn far_case(tier: Tier, range: (f32, f32), ctx: &mut Ctx) {
	const F: f64 = 1e6;
	let far: Vec<V3> = vec![[F, 0.0, 0.0], [0.0, -F, 0.0], [0.0, 0.0, F], [F, F, F], [-F, F, -3.0]];
	let mut ls = vec![[0.0; 3]];
	ls.extend(far.iter().copied());
	// besides the far points: the emitter exactly at an ear (0.1 beside the listener), inside the head, at the listener
	let mut es = vec![[0.0; 3], [1.0, 0.0, 0.0], [F + 64.0, 0.0, 0.0]];
	for k in [0.1f32 as f64, 0.05, 1e-20] {
		es.extend([[k, 0.0, 0.0], [-k, 0.0, 0.0], [0.0, k, 0.0], [0.0, 0.0, -k]]);
	}
	es.extend(far.iter().copied());
	for &lpos in &ls {
		for &epos in &es {
			for (_, lq, _) in orientations(tier) {
				for curve in curves(tier) {
					for s in [0.0f32, 0.75, 1.0] {
						let sc = Scene { lpos, lq, epos, sp: Sp { range, curve, s } };
						let Some(o) = render(&sc, ctx, if maxabs(&[lpos, epos]) >= F { "far-apart scene (1e6)" } else { "emitter at / next to the listener's ears" }) else { continue };
						if o != (0.0, 0.0) {
							ctx.nontrivial_extra += 1;
						}
						let d = sc.distance();
						let cn = curve_name(curve);
						let top = if s == 0.0 { (IN.0 as f64, IN.1 as f64) } else { (MONO, MONO) };
						let detail = format!("{} -> output {:?} (distance {})", sc.desc(), o, d);
						if curve.is_some() && d >= range.1 as f64 * 1.001 && o != (0.0, 0.0) {
							ctx.fail(format!("attenuation: not zero at/beyond max distance :: curve={}", cn), detail);
						} else if s == 0.0 && (curve.is_none() || d <= range.0 as f64 * 0.999) && o != top {
							ctx.fail(format!("attenuation: not unity within min distance :: curve={}", cn), detail);
						} else if o.0 < 0.0 || o.1 < 0.0 || o.0 > top.0 * (1.0 + 1e-6) || o.1 > top.1 * (1.0 + 1e-6) {
							ctx.fail(format!("level above the input (gain > 1) or negative :: extreme scene curve={}", cn), detail);
						}
					}
				}
			}
		}
	}
}

fn degenerate_case(ctx: &mut Ctx) {
	for (range, what) in [((2.0f32, 2.0f32), "distances min == max"), ((0.0, 0.0), "distances min == max"), ((5.0, 1.0), "distances min > max")] {
		for curve in [Easing::Linear, Easing::InPowi(2)] {
			for s in [0.0f32, 0.75] {
				for x in [0.0, 1.0, 2.0, 3.0, 7.0] {
					let sc = Scene { lpos: [0.0; 3], lq: QID, epos: [x, 0.0, 0.0], sp: Sp { range, curve: Some(curve), s } };
					if let Some(o) = render(&sc, ctx, what) {
						let top = if s == 0.0 { IN.0 as f64 } else { MONO };
						if o.0 < 0.0 || o.0 > top * (1.0 + 1e-6) {
							ctx.fail(format!("level above the input (gain > 1) or negative :: {}", what), format!("{} -> {:?}", sc.desc(), o));
						}
					}
				}
			}
		}
	}
}

/// (a) a spatialization strength that is LINKED (modulator + mapping whose output range leaves 0..1) is clamped like a fixed one:
///     the scene renders exactly like the same scene with the clamped fixed strength;
/// (b) what a spatial track sends to a send track is the spatialized signal: beyond the maximum distance / without listener
///     nothing arrives there either, in between it carries the same attenuation and ear gains.
fn linked_strength_and_sends_case(ctx: &mut Ctx) {
	use kira::modulator::tweener::TweenerBuilder;
	use kira::track::SendTrackBuilder;
	for epos in [[-3.0, 0.0, -1.0], [2.0, 1.0, 0.5], [0.0, 0.0, -4.0]] {
		for lq in [QID, axis_angle([0.0, 1.0, 0.0], 90.0)] {
			for (out_range, at) in [((0.0f32, 2.0f32), 1.0f64), ((0.0, 2.0), 0.25), ((-1.0, 1.0), 0.25), ((0.5, 3.0), 0.5)] {
				let mapped = out_range.0 as f64 + (out_range.1 - out_range.0) as f64 * at;
				let sp = Sp { range: (1.0, 50.0), curve: Some(Easing::Linear), s: mapped.clamp(0.0, 1.0) as f32 };
				let sc = Scene { lpos: [0.0, 0.0, 1.0], lq, epos, sp };
				let mut c = Ctx::default();
				let Some(want) = render(&sc, &mut c, "linked strength reference") else { continue };
				ctx.evals += 1;
				let r = catch(|| {
					let mut m = mgr();
					let tw = m.add_modulator(TweenerBuilder { initial_value: at }).expect("tweener");
					let l = m.add_listener(mv(sc.lpos), mq(sc.lq)).expect("listener");
					let strength: Value<f32> = Value::FromModulator { id: tw.id(), mapping: Mapping { input_range: (0.0, 1.0), output_range: out_range, easing: Easing::Linear } };
					let b = SpatialTrackBuilder::new().sound_capacity(2).distances(sp.range).attenuation_function(sp.curve).spatialization_strength(strength);
					let mut t = m.add_spatial_sub_track(&l, mv(sc.epos), b).expect("track");
					t.play(input()).expect("play");
					let mut out = vec![];
					let r = pump(&mut m, 3, &mut out);
					drop((t, l, tw));
					r.map(|_| out)
				});
				match r {
					Ok(Ok(out)) => {
						let last = out[out.len() - 1];
						if (last.0 as f64 - want.0).abs() > 1e-6 || (last.1 as f64 - want.1).abs() > 1e-6 || !last.0.is_finite() {
							ctx.fail(
								"ear gains leave [1 - strength, 1]: a spatialization strength linked to a modulator is not clamped to 0..1 like a fixed one :: linked strength".to_string(),
								format!("strength = tweener at {} mapped to {:?} (= {}), expected like the fixed strength {}: {:?} vs {:?}; {}", at, out_range, mapped, sp.s, last, want, sc.desc()),
							);
						} else if last != (0.0, 0.0) {
							ctx.nontrivial_extra += 1;
						}
					}
					Ok(Err(p)) | Err(p) => ctx.fail(format!("panic: {} :: linked strength", p), sc.desc()),
				}
			}
			// (b) sends
			for (x, listener_alive) in [(60.0f64, true), (25.0, true), (3.0, true), (3.0, false)] {
				let sp = Sp { range: (1.0, 50.0), curve: Some(Easing::Linear), s: 0.75 };
				let sc = Scene { lpos: [0.0, 0.0, 1.0], lq, epos: [x, epos[1], 1.0 + epos[2]], sp };
				let mut c = Ctx::default();
				let Some(direct) = render(&sc, &mut c, "send reference") else { continue };
				ctx.evals += 1;
				let r = catch(|| {
					let mut m = mgr();
					let send = m.add_send_track(SendTrackBuilder::new()).expect("send");
					let l = m.add_listener(mv(sc.lpos), mq(sc.lq)).expect("listener");
					let mut t = m.add_spatial_sub_track(&l, mv(sc.epos), sp_builder(sc.sp).with_send(send.id(), Decibels::IDENTITY)).expect("track");
					t.play(input()).expect("play");
					let mut out = vec![];
					let mut l = Some(l);
					if !listener_alive {
						l = None;
					}
					let r = pump(&mut m, 3, &mut out);
					drop((t, l, send));
					r.map(|_| out)
				});
				match r {
					Ok(Ok(out)) => {
						let last = out[out.len() - 1];
						// direct path + send path, both spatialized; nothing at all once the listener is gone
						let want = if listener_alive { (2.0 * direct.0, 2.0 * direct.1) } else { (0.0, 0.0) };
						if (last.0 as f64 - want.0).abs() > 1e-6 || (last.1 as f64 - want.1).abs() > 1e-6 {
							ctx.fail(
								"what a spatial track feeds to a send track is not the spatialized signal (attenuation x ear gains; silent without listener) :: spatial track with a send".to_string(),
								format!("spatial track routed to a plain send track at 0 dB, listener {}: output {:?}, expected direct + send = {:?} (the scene alone renders {:?}); {}", if listener_alive { "alive" } else { "dropped before the first callback" }, last, want, direct, sc.desc()),
							);
						} else if want != (0.0, 0.0) {
							ctx.nontrivial_extra += 1;
						}
					}
					Ok(Err(p)) | Err(p) => ctx.fail(format!("panic: {} :: spatial track with a send", p), sc.desc()),
				}
			}
		}
	}
	ctx.outcome(hash64(&"linked strength and sends"));
}

// ---------------------------------------------------------------------------------------------
// part C: listener histories

fn silent(out: &[(f32, f32)]) -> bool { out.iter().all(|f| *f == (0.0, 0.0)) }
fn small_emitters() -> Vec<V3> {
	vec![[0.0; 3], [1.0, 0.0, 0.0], [-3.0, 0.0, -1.0], [0.0, 3.0, 3.0], [1.0, -1.0, 3.0]]
}
fn small_sps() -> Vec<Sp> {
	let mut v = vec![];
	for curve in [None, Some(Easing::Linear)] {
		for s in [0.0f32, 0.75] {
			v.push(Sp { range: (1.0, 100.0), curve, s });
		}
	}
	v
}

fn history_case(which: u64, ctx: &mut Ctx) {
	for epos in small_emitters() {
		for sp in small_sps() {
			for lq in [QID, axis_angle([0.0, 1.0, 0.0], 90.0)] {
				let sc = Scene { lpos: [0.0, 0.0, 1.0], lq, epos, sp };
				ctx.evals += 1;
				ctx.traces += 1;
				let r = catch(|| history(which, &sc, ctx));
				if let Err(p) = r {
					ctx.fail(format!("panic: {} :: listener history {}", p, HISTORIES[which as usize]), sc.desc());
				}
			}
		}
	}
}
const HISTORIES: [&str; 9] = [
	"id of a listener that was dropped and removed before the track was created",
	"id of a removed listener while a new listener occupies the arena",
	"listener dropped before its first callback",
	"listener dropped after its first callback, before the track's first callback",
	"listener dropped mid-run",
	"another listener dropped mid-run",
	"track created before the listener's first callback",
	"several of three listeners dropped between the same two callbacks",
	"emitter moved (and its spatialization strength changed) while nothing plays on it, sound played afterwards",
];
fn history(which: u64, sc: &Scene, ctx: &mut Ctx) {
	let name = HISTORIES[which as usize];
	let mut m = mgr();
	let mut out = vec![];
	let reference = {
		let mut c = Ctx::default();
		render(sc, &mut c, "reference")
	};
	let fail = |ctx: &mut Ctx, sig: String, out: &[(f32, f32)]| ctx.fail(sig, format!("history: {}; {} -> frames {:?}", name, sc.desc(), out));
	let add_track = |m: &mut Manager, id: kira::listener::ListenerId| {
		let mut t = m.add_spatial_sub_track(id, mv(sc.epos), sp_builder(sc.sp)).expect("track");
		t.play(input()).expect("play");
		t
	};
	let expect_ref = |ctx: &mut Ctx, out: &[(f32, f32)], what: &str| {
		if let Some(r) = reference {
			let l = out[out.len() - 1];
			if (l.0 as f64 - r.0).abs() > 1e-7 || (l.1 as f64 - r.1).abs() > 1e-7 {
				ctx.fail(format!("live listener: level differs from the plain rendering of the same scene :: {}", what), format!("history: {}; {} -> frames {:?}, plain rendering {:?}", name, sc.desc(), out, r));
			} else if l != (0.0, 0.0) {
				ctx.nontrivial_extra += 1;
			}
		}
	};
	match which {
		0 | 1 => {
			let l0 = m.add_listener(mv(sc.lpos), mq(sc.lq)).expect("listener");
			let id = l0.id();
			if which == 1 {
				pump(&mut m, 1, &mut out).unwrap();
			}
			drop(l0);
			pump(&mut m, 2, &mut out).unwrap();
			let _l1 = if which == 1 { Some(m.add_listener(mv(sc.lpos), mq(sc.lq)).expect("listener")) } else { None };
			out.clear();
			let _t = add_track(&mut m, id);
			pump(&mut m, 3, &mut out).unwrap();
			if !silent(&out) {
				fail(ctx, format!("no listener: track audible :: {}", name), &out);
			}
		}
		2 | 3 => {
			let l = m.add_listener(mv(sc.lpos), mq(sc.lq)).expect("listener");
			if which == 3 {
				pump(&mut m, 1, &mut out).unwrap();
				out.clear();
			}
			let _t = add_track(&mut m, l.id());
			drop(l);
			pump(&mut m, 3, &mut out).unwrap();
			// a listener dropped before the audio thread picked it up is removed at the callback after the next
			// (resource life cycle, C08): it exists during exactly that one callback
			let per_cb = out.len() / 3;
			if which == 2 {
				for f in out.iter_mut().take(per_cb) {
					*f = (0.0, 0.0);
				}
			}
			if !silent(&out) {
				let first = out.iter().position(|f| *f != (0.0, 0.0)).unwrap() / IBS;
				let last = out.iter().rposition(|f| *f != (0.0, 0.0)).unwrap() / IBS;
				fail(ctx, format!("no listener: track audible :: {} (audible in callback {}..={} after the drop)", name, first, last), &out);
			}
		}
		4 | 5 => {
			for k in 1..=3 {
				let mut m = mgr();
				let l = m.add_listener(mv(sc.lpos), mq(sc.lq)).expect("listener");
				let other = m.add_listener(mv([5.0, 5.0, 5.0]), mq(QID)).expect("listener");
				let _t = add_track(&mut m, l.id());
				let mut out = vec![];
				pump(&mut m, k, &mut out).unwrap();
				expect_ref(ctx, &out, "before the drop");
				out.clear();
				if which == 4 {
					drop(l);
					pump(&mut m, 3, &mut out).unwrap();
					if !silent(&out) {
						fail(ctx, format!("no listener: track audible :: {}", name), &out);
					}
					drop(other);
				} else {
					drop(other);
					pump(&mut m, 3, &mut out).unwrap();
					expect_ref(ctx, &out, "after another listener was dropped");
					drop(l);
				}
			}
		}
		6 => {
			let l = m.add_listener(mv(sc.lpos), mq(sc.lq)).expect("listener");
			let _t = add_track(&mut m, l.id());
			pump(&mut m, 2, &mut out).unwrap();
			expect_ref(ctx, &out, "track and listener adopted in the same callback");
			drop(l);
		}
		8 => {
			// the track is idle (no sound, no child, no effect) while it is told to move from elsewhere to the scene's emitter
			// position: whatever is played on it afterwards is heard from the new position from its first frame on
			for tween_f in [0u64, 6] {
				for wait in [2usize, 4] {
					let mut m = mgr();
					let l = m.add_listener(mv(sc.lpos), mq(sc.lq)).expect("listener");
					let elsewhere = add(sc.epos, [7.0, -5.0, 3.0]);
					let mut t = m.add_spatial_sub_track(l.id(), mv(elsewhere), sp_builder(Sp { s: 0.0, ..sc.sp })).expect("track");
					let mut out = vec![];
					pump(&mut m, 1, &mut out).unwrap();
					t.set_position(mv(sc.epos), tween_frames(tween_f));
					t.set_spatialization_strength(sc.sp.s, tween_frames(tween_f));
					pump(&mut m, wait, &mut out).unwrap();
					out.clear();
					t.play(input()).expect("play");
					pump(&mut m, 2, &mut out).unwrap();
					if let Some(r) = reference {
						if let Some(i) = out.iter().position(|f| (f.0 as f64 - r.0).abs() > 1e-6 || (f.1 as f64 - r.1).abs() > 1e-6) {
							ctx.fail(
								format!("live listener: level differs from the plain rendering of the same scene :: {}", name),
								format!("history: {}; track created at {:?} with strength 0, one callback, set_position(scene emitter) and set_spatialization_strength(scene strength) with linear tweens of {} frames, {} callbacks of {} frames with nothing playing, then play: frame {} = {:?}, plain rendering {:?}; {}; frames {:?}", name, elsewhere, tween_f, wait, IBS, i, out[i], r, sc.desc(), out),
							);
						} else if r != (0.0, 0.0) {
							ctx.nontrivial_extra += 1;
						}
					}
					ctx.transitions += 4;
					drop((t, l));
				}
			}
		}
		_ => {
			// every non-empty subset of three listeners (each heard by its own track, same pose) dropped in one interval:
			// from the next callback on exactly the tracks of the live listeners are heard, and the dropped ones' slots come back
			for mask in 1u32..8 {
				for settle in [1usize, 2] {
					let mut m = mgr();
					let mut ls: Vec<Option<kira::listener::ListenerHandle>> = (0..3).map(|_| Some(m.add_listener(mv(sc.lpos), mq(sc.lq)).expect("listener"))).collect();
					let ts: Vec<_> = ls.iter().map(|l| add_track(&mut m, l.as_ref().unwrap().id())).collect();
					let mut out = vec![];
					pump(&mut m, settle, &mut out).unwrap();
					out.clear();
					// drop order: highest index first and lowest index first are both histories of the same interval
					for i in 0..3 {
						if mask & (1 << i) != 0 {
							ls[i] = None;
						}
					}
					pump(&mut m, 3, &mut out).unwrap();
					let live = 3 - mask.count_ones() as usize;
					if let Some(r) = reference {
						let want = (r.0 * live as f64, r.1 * live as f64);
						if let Some(i) = out.iter().position(|f| (f.0 as f64 - want.0).abs() > 1e-6 || (f.1 as f64 - want.1).abs() > 1e-6) {
							ctx.fail(
								format!("no listener: track audible :: {}", name),
								format!("history: {}; listeners dropped (bit mask) {:03b} after {} callback(s); {} -> frame {} (callback {} after the drop) = {:?}, expected {} x the plain rendering {:?} = {:?}; frames {:?}", name, mask, settle, sc.desc(), i, i / IBS, out[i], live, r, want, out),
							);
							break;
						} else if want != (0.0, 0.0) {
							ctx.nontrivial_extra += 1;
						}
					}
					// the arena holds 4 listeners: after the removal (1 + dropped) new ones fit
					let mut fresh = vec![];
					for k in 0..(1 + mask.count_ones() as usize) {
						match m.add_listener(mv(sc.lpos), mq(sc.lq)) {
							Ok(l) => fresh.push(l),
							Err(e) => {
								ctx.fail(
									format!("the slot of a dropped listener is not free again after the callbacks that removed it :: {}", name),
									format!("history: {}; listeners dropped (bit mask) {:03b}; 3 callbacks later add_listener #{} fails: {:?}", name, mask, k + 1, e),
								);
								break;
							}
						}
					}
					ctx.transitions += 4;
					drop((ts, fresh));
				}
			}
		}
	}
	ctx.transitions += 4;
	ctx.state(hash64(&(which, silent(&out))));
}

// ---------------------------------------------------------------------------------------------
// part D: nesting and parameters mapped from the listener distance

const PLACEMENTS: [&str; 7] = [
	"on the spatial track",
	"on a plain child of the spatial track",
	"on a plain grandchild of the spatial track",
	"on a plain child of a spatial track nested in another spatial track",
	"on a plain child of a plain track under a spatial track under a plain track",
	"as the volume of a plain child of the spatial track",
	"as the volume of a plain child of the spatial track, linked at run time through TrackHandle::set_volume (2-frame tween)",
];
const MAP_EASINGS: [Easing; 2] = [Easing::Linear, Easing::InPowi(2)];
fn vol_mapping(e: Easing) -> Mapping<Decibels> { Mapping { input_range: (0.0, 20.0), output_range: (Decibels(0.0), Decibels(-40.0)), easing: e } }
fn vol_ref(e: Easing, d: f64) -> f64 { 10f64.powf(-40.0 * ease(e, (d / 20.0).clamp(0.0, 1.0)) / 20.0) }
const FLAT: Sp = Sp { range: (1.0, 100.0), curve: None, s: 0.0 };

/// Builds the scene for a placement; the sound plays on the innermost track, which carries a
/// VolumeControl mapped from the listener distance (or has its volume mapped) and a DistProbe.
/// Returns (manager, listener that matters, spatial track that matters, keep-alive, probe).
#[allow(clippy::type_complexity)]
fn build_placement(p: usize, e: Easing, lpos: V3, epos: V3) -> (Manager, ListenerHandle, SpatialTrackHandle, Vec<Box<dyn std::any::Any>>, Arc<Mutex<Seen>>) {
	let seen = Arc::new(Mutex::new(Seen::default()));
	let mut m = mgr();
	let l = m.add_listener(mv(lpos), mq(QID)).expect("listener");
	let mut keep: Vec<Box<dyn std::any::Any>> = vec![];
	let vol = Value::FromListenerDistance(vol_mapping(e));
	let fx_plain = || plain_builder().with_effect(VolumeControlBuilder::new(vol)).with_effect(DistProbeBuilder(seen.clone()));
	let sp = match p {
		0 => {
			let mut sp = m.add_spatial_sub_track(&l, mv(epos), sp_builder(FLAT).with_effect(VolumeControlBuilder::new(vol)).with_effect(DistProbeBuilder(seen.clone()))).expect("track");
			sp.play(input()).expect("play");
			sp
		}
		1 | 2 | 5 | 6 => {
			let mut sp = m.add_spatial_sub_track(&l, mv(epos), sp_builder(FLAT)).expect("track");
			let mut c = if p == 6 {
				let mut c = sp.add_sub_track(plain_builder().with_effect(DistProbeBuilder(seen.clone()))).expect("child");
				c.set_volume(vol, tween_frames(2));
				c
			} else if p == 5 { sp.add_sub_track(plain_builder().volume(vol).with_effect(DistProbeBuilder(seen.clone()))).expect("child") } else if p == 1 { sp.add_sub_track(fx_plain()).expect("child") } else { sp.add_sub_track(plain_builder()).expect("child") };
			if p == 2 {
				let mut g = c.add_sub_track(fx_plain()).expect("grandchild");
				g.play(input()).expect("play");
				keep.push(Box::new(g));
			} else {
				c.play(input()).expect("play");
			}
			keep.push(Box::new(c));
			sp
		}
		3 => {
			// outer spatial track: other listener, other position, flat as well
			let lo = m.add_listener(mv([40.0, 0.0, 0.0]), mq(QID)).expect("listener");
			let mut outer = m.add_spatial_sub_track(&lo, mv([47.0, 0.0, 0.0]), sp_builder(FLAT)).expect("outer");
			let mut sp = outer.add_spatial_sub_track(&l, mv(epos), sp_builder(FLAT)).expect("inner");
			let mut c = sp.add_sub_track(fx_plain()).expect("child");
			c.play(input()).expect("play");
			keep.push(Box::new(c));
			keep.push(Box::new(outer));
			keep.push(Box::new(lo));
			sp
		}
		_ => {
			let mut top = m.add_sub_track(plain_builder()).expect("top");
			let mut sp = top.add_spatial_sub_track(&l, mv(epos), sp_builder(FLAT)).expect("spatial");
			let mut mid = sp.add_sub_track(plain_builder()).expect("mid");
			let mut c = mid.add_sub_track(fx_plain()).expect("child");
			c.play(input()).expect("play");
			keep.push(Box::new(c));
			keep.push(Box::new(mid));
			keep.push(Box::new(top));
			sp
		}
	};
	(m, l, sp, keep, seen)
}

fn param_case(p: usize, ctx: &mut Ctx) {
	let lps: [V3; 3] = [[0.0; 3], [0.0, 0.0, 5.0], [-3.0, 4.0, 0.0]];
	let eps: [V3; 6] = [[0.0; 3], [0.0, 0.0, -5.0], [3.0, 0.0, 4.0], [0.0, 12.0, 0.0], [20.0, 0.0, 0.0], [-30.0, 1.0, 1.0]];
	for e in MAP_EASINGS {
		for lpos in lps {
			for epos in eps {
				for (lpos2, epos2) in [([1.0, 2.0, 2.0], epos), (lpos, [0.0, -9.0, 0.0]), ([0.0, 15.0, 0.0], [0.0, -10.0, 0.0])] {
					ctx.evals += 1;
					ctx.traces += 1;
					let what = format!("parameter {} (mapping: distance 0..20 -> 0..-40 dB, easing {:?}); spatial track flat (curve None, strength 0); listener {:?} emitter {:?}, then listener -> {:?} and emitter -> {:?} (instant)", PLACEMENTS[p], e, lpos, epos, lpos2, epos2);
					let r = catch(|| {
						let (mut m, mut l, mut sp, keep, seen) = build_placement(p, e, lpos, epos);
						let mut out = vec![];
						pump(&mut m, 3, &mut out).unwrap();
						let first = (out[out.len() - 1], *seen.lock().unwrap());
						l.set_position(mv(lpos2), INSTANT);
						sp.set_position(mv(epos2), INSTANT);
						pump(&mut m, 4, &mut out).unwrap();
						let second = (out[out.len() - 1], *seen.lock().unwrap());
						drop(keep);
						[(first, len(sub(epos, lpos))), (second, len(sub(epos2, lpos2)))]
					});
					let obs = match r {
						Ok(o) => o,
						Err(pn) => {
							ctx.fail(format!("panic: {} :: parameter {}", pn, PLACEMENTS[p]), what);
							continue;
						}
					};
					for (step, ((o, seen), d)) in obs.iter().enumerate() {
						let stage = if step == 0 { "initial positions" } else { "after listener and emitter moved" };
						let want = vol_ref(e, *d);
						let detail = format!("{}; {}: distance {} -> output {:?}, expected level x{} ; effect saw listener_distance()={:?}, probe parameter {} after {} calls", what, stage, d, o, want, seen.distance, seen.param, seen.calls);
						ctx.transitions += 1;
						ctx.state(hash64(&(p, (d * 16.0) as i64)));
						let class = match p {
							0 => "on the spatial track itself",
							3 => "on a plain descendant of a spatial track nested in a spatial track",
							_ => "on a plain descendant of the spatial track",
						};
						let _ = stage;
						if !o.0.is_finite() || !o.1.is_finite() {
							ctx.fail(format!("output not finite :: parameter {}", class), detail);
							continue;
						}
						// root first: the distance the track's Info reports; the mapped values only if that is right
						if !matches!(seen.distance, Some(x) if (x as f64 - d).abs() <= 1e-5 * d.max(1.0)) {
							ctx.fail(format!("Info::listener_distance() is not the emitter-listener distance :: {}", class), detail);
							continue;
						}
						let tol = 1e-5 * want + 1e-7;
						if (seen.param - (d / 10.0).clamp(0.0, 1.0)).abs() > 1e-5 {
							ctx.fail(format!("an effect parameter mapped from the listener distance does not follow the distance :: {}", class), detail);
						} else if (o.0 as f64 - IN.0 as f64 * want).abs() > tol || (o.1 as f64 - IN.1 as f64 * want).abs() > tol {
							ctx.fail(format!("a volume mapped from the listener distance does not follow the distance :: {}", if p == 6 { "track volume linked through the handle" } else if p == 5 { "track volume" } else { "volume-control effect" }), detail);
						} else {
							ctx.nontrivial_extra += 1;
						}
					}
				}
			}
		}
	}
}

/// nesting laws: a plain child passes through its spatial parent like a sound played on the
/// parent; spatial-in-spatial composes (inner rendering is the outer track's input); a missing
/// listener on either level silences the branch.
fn nesting_case(tier: Tier, which: u64, ctx: &mut Ctx) {
	let lqs = [QID, axis_angle([0.0, 1.0, 0.0], 90.0), axis_angle([1.0, 1.0, 0.0], 37.0)];
	let es: Vec<V3> = emitters(Tier::Quick).into_iter().filter(|e| e.iter().all(|c| c.abs() <= tier.pick(1.0, 3.0))).collect();
	let mut sps = vec![];
	for curve in [None, Some(Easing::Linear), Some(Easing::InPowi(2))] {
		for s in [0.0f32, 0.75, 1.0] {
			sps.push(Sp { range: (0.0, 10.0), curve, s });
		}
	}
	for lq in lqs {
		for &epos in &es {
			for &sp in &sps {
				let sc = Scene { lpos: [1.0, 0.0, -3.0], lq, epos, sp };
				let Some(plain) = render(&sc, ctx, "nesting reference") else { continue };
				ctx.traces += 1;
				let r = catch(|| nesting(which, &sc, plain, ctx));
				if let Err(p) = r {
					ctx.fail(format!("panic: {} :: nesting {}", p, NESTINGS[which as usize]), sc.desc());
				}
			}
		}
	}
}
const NESTINGS: [&str; 5] = [
	"sound on a plain child (and grandchild) of the spatial track",
	"spatial track under a plain track",
	"spatial track nested in a spatial track",
	"nested spatial tracks, the inner track's listener dropped",
	"nested spatial tracks, the outer track's listener dropped",
];
fn nesting(which: u64, sc: &Scene, plain: (f64, f64), ctx: &mut Ctx) {
	let name = NESTINGS[which as usize];
	let mut m = mgr();
	let l = m.add_listener(mv(sc.lpos), mq(sc.lq)).expect("listener");
	let mut out = vec![];
	let same = |ctx: &mut Ctx, out: &[(f32, f32)], want: (f64, f64), tol: f64, extra: String| {
		let o = out[out.len() - 1];
		if !o.0.is_finite() || !o.1.is_finite() {
			ctx.fail(format!("output not finite :: {}", name), format!("{} -> {:?}; {}", sc.desc(), o, extra));
		} else if (o.0 as f64 - want.0).abs() > tol || (o.1 as f64 - want.1).abs() > tol {
			ctx.fail(format!("nesting changes the level :: {}", name), format!("{} -> {:?}, expected {:?}; {}", sc.desc(), o, want, extra));
		} else if o != (0.0, 0.0) {
			ctx.nontrivial_extra += 1;
		}
	};
	match which {
		0 => {
			let mut sp = m.add_spatial_sub_track(&l, mv(sc.epos), sp_builder(sc.sp)).expect("track");
			let mut c = sp.add_sub_track(plain_builder()).expect("child");
			let mut g = c.add_sub_track(plain_builder()).expect("grandchild");
			g.play(ConstData(Frame::new(IN.0 / 2.0, IN.1 / 2.0))).expect("play");
			c.play(ConstData(Frame::new(IN.0 / 2.0, IN.1 / 2.0))).expect("play");
			pump(&mut m, 2, &mut out).unwrap();
			same(ctx, &out, plain, 1e-7, "half of the input plays on the child, half on the grandchild".into());
			drop(l);
			out.clear();
			pump(&mut m, 2, &mut out).unwrap();
			if !silent(&out) {
				ctx.fail(format!("no listener: track audible :: {}", name), format!("{} -> {:?} after the listener was dropped", sc.desc(), out));
			}
		}
		1 => {
			let mut top = m.add_sub_track(plain_builder()).expect("top");
			let mut sp = top.add_spatial_sub_track(&l, mv(sc.epos), sp_builder(sc.sp)).expect("track");
			sp.play(input()).expect("play");
			pump(&mut m, 2, &mut out).unwrap();
			same(ctx, &out, plain, 1e-7, String::new());
		}
		_ => {
			// outer: fixed scene with its own listener; inner: the lattice scene
			let osp = Sp { range: (1.0, 100.0), curve: Some(Easing::Linear), s: 0.5 };
			let (olp, oq, oep) = ([10.0, 0.0, 0.0], axis_angle([0.0, 1.0, 0.0], 180.0), [13.0, 1.0, -2.0]);
			let lo = m.add_listener(mv(olp), mq(oq)).expect("listener");
			let mut outer = m.add_spatial_sub_track(&lo, mv(oep), sp_builder(osp)).expect("outer");
			let mut inner = outer.add_spatial_sub_track(&l, mv(sc.epos), sp_builder(sc.sp)).expect("inner");
			inner.play(input()).expect("play");
			// reference: the outer scene alone, fed with the inner rendering
			let want = {
				let mut m2 = mgr();
				let l2 = m2.add_listener(mv(olp), mq(oq)).expect("listener");
				let mut t2 = m2.add_spatial_sub_track(&l2, mv(oep), sp_builder(osp)).expect("track");
				t2.play(ConstData(Frame::new(plain.0 as f32, plain.1 as f32))).expect("play");
				let mut o2 = vec![];
				pump(&mut m2, 2, &mut o2).unwrap();
				let o = o2[o2.len() - 1];
				(o.0 as f64, o.1 as f64)
			};
			pump(&mut m, 2, &mut out).unwrap();
			same(ctx, &out, want, 1e-6, format!("outer track: listener {:?} yaw180, emitter {:?}, {:?}; inner rendering alone {:?}", olp, oep, osp, plain));
			if which >= 3 {
				if which == 3 {
					drop(l);
				} else {
					drop(lo);
				}
				out.clear();
				pump(&mut m, 2, &mut out).unwrap();
				if !silent(&out) {
					ctx.fail(format!("no listener: track audible :: {}", name), format!("{} -> {:?} after the drop", sc.desc(), out));
				}
			}
		}
	}
	ctx.transitions += 2;
	ctx.state(hash64(&(which, silent(&out))));
}

// ---------------------------------------------------------------------------------------------
// fly-by: one end travels on a straight line that starts and ends beyond the maximum distance and passes close to the other end;
// positions are interpolated frame by frame, so the frames near the closest approach are audible - the attenuation follows the
// distance of every frame, not the distance at the ends of a buffer

fn flyby_case(ctx: &mut Ctx) {
	const FIXED: V3 = [0.0, 0.0, -3.0];
	for which in 0..2usize {
		for curve in [Some(Easing::Linear), Some(Easing::InPowi(2)), Some(Easing::OutPowi(2))] {
			for range in [(1.0f32, 10.0f32), (0.0, 20.0)] {
				for (a, b) in [([-50.0, 0.0, 0.0], [50.0, 0.0, 0.0]), ([40.0, 0.0, -3.0], [-40.0, 0.0, -3.0]), ([0.0, -30.0, 0.0], [0.0, 90.0, 0.0])] {
					for frames in [0u64, 4, 8, 12] {
						ctx.evals += 1;
						ctx.traces += 1;
						let sp = Sp { range, curve, s: 0.0 };
						let (sc, epos, lpos) = if which == 0 { (Scene { lpos: FIXED, lq: QID, epos: a, sp }, b, FIXED) } else { (Scene { lpos: a, lq: QID, epos: FIXED, sp }, FIXED, b) };
						let t = TweenScene { sc, epos, lpos, lq: QID, s: 0.0, frames };
						let what = format!("fly-by: {} travels from {:?} to {:?} over {} frames (linear, issued after the first callback; 0 = at once) past the {} at {:?}; distances {:?}, curve {}, strength 0, internal buffer {}", if which == 0 { "the emitter" } else { "the listener" }, a, b, frames, if which == 0 { "listener" } else { "emitter" }, FIXED, range, curve_name(curve), IBS);
						let out = match run_tween(which, &t) {
							Ok(o) => o,
							Err(p) => {
								ctx.fail(format!("panic: {} :: fly-by", p), what);
								continue;
							}
						};
						// the position in force at frame j after the command was read: a + (b - a) * u(j)
						let n = IBS as f64;
						let u = |j: usize| -> f64 {
							let (c, i) = (j / IBS, (j % IBS) as f64);
							let at = |k: f64| if frames == 0 { if k > 0.0 { 1.0 } else { 0.0 } } else { (k * n / frames as f64).min(1.0) };
							let (p0, p1) = (at(c as f64), at(c as f64 + 1.0));
							p0 + (p1 - p0) * i / n
						};
						let mut audible = 0;
						for j in 0..out.len() - IBS {
							let pos = add(a, scale(sub(b, a), u(j)));
							let d = len(sub(pos, FIXED));
							let want = att_ref(range, curve, d);
							let slack = att_slack(range, curve, d, 1e-4) + 2e-5;
							let got = out[IBS + j];
							audible += (want > 1e-3) as usize;
							if (got.0 as f64 - IN.0 as f64 * want).abs() > slack || (got.1 as f64 - IN.1 as f64 * want).abs() > slack {
								ctx.fail(
									format!("the attenuation does not follow the distance frame by frame while one end flies past the other :: fly-by of {}", if which == 0 { "the emitter" } else { "the listener" }),
									format!("{} -> frame {} after the command: distance {:.4}, expected level ({:e}, {:e}), got {:?}; all frames {:?}", what, j, d, IN.0 as f64 * want, IN.1 as f64 * want, got, out),
								);
								break;
							}
						}
						if audible > 0 {
							ctx.nontrivial_extra += 1;
						}
						ctx.state(hash64(&(which, frames, audible)));
					}
				}
			}
		}
	}
}

// ---------------------------------------------------------------------------------------------
// part E: tweens of emitter position, listener position / orientation and strength

const TWEENS: [&str; 5] = ["emitter position", "listener position", "listener orientation", "listener position and orientation", "spatialization strength"];
struct TweenScene {
	sc: Scene,
	/// targets
	epos: V3,
	lpos: V3,
	lq: Q,
	s: f32,
	frames: u64,
}
fn run_tween(which: usize, t: &TweenScene) -> Result<Vec<(f32, f32)>, String> {
	catch(|| {
		let mut m = mgr();
		let mut l = m.add_listener(mv(t.sc.lpos), mq(t.sc.lq)).expect("listener");
		let mut tr = m.add_spatial_sub_track(&l, mv(t.sc.epos), sp_builder(t.sc.sp)).expect("track");
		tr.play(input()).expect("play");
		let mut out = vec![];
		pump(&mut m, 1, &mut out)?;
		let tw = tween_frames(t.frames);
		match which {
			0 => tr.set_position(mv(t.epos), tw),
			1 => l.set_position(mv(t.lpos), tw),
			2 => l.set_orientation(mq(t.lq), tw),
			3 => {
				l.set_position(mv(t.lpos), tw);
				l.set_orientation(mq(t.lq), tw);
			}
			_ => tr.set_spatialization_strength(t.s, tw),
		}
		pump(&mut m, (t.frames as usize).div_ceil(IBS) + 2, &mut out)?;
		Ok(out)
	})
	.and_then(|r| r)
}
fn tween_case(tier: Tier, which: usize, ctx: &mut Ctx) {
	let ms = motions(tier);
	let pts: Vec<V3> = vec![[0.0; 3], [1.0, 0.0, 0.0], [-3.0, 0.0, -1.0], [0.0, 3.0, 3.0], [3.0, -3.0, 1.0], [0.0, 0.0, -9.0]];
	let os: Vec<Q> = orientations(Tier::Quick).iter().map(|o| o.1).collect();
	let durations: Vec<u64> = tier.pick(vec![0, 6], vec![0, 1, 6, 8]);
	let mut sps = vec![];
	for curve in [None, Some(Easing::Linear), Some(Easing::InPowi(2))] {
		for s in [0.0f32, 0.75, 1.0] {
			sps.push(Sp { range: (0.0, 10.0), curve, s });
		}
	}
	const LFIX: V3 = [1.0, 0.0, -3.0];
	const EFIX: V3 = [1.0, 1.0, -1.0];
	for &sp in &sps {
		for &frames in &durations {
			let mut push = |sc: Scene, epos: V3, lpos: V3, lq: Q, s: f32| tween_one(which, &TweenScene { sc, epos, lpos, lq, s, frames }, &ms, ctx);
			match which {
				0 => {
					for &a in &pts {
						for &b in &pts {
							for &q in &os {
								push(Scene { lpos: LFIX, lq: q, epos: a, sp }, b, LFIX, q, sp.s);
							}
						}
					}
				}
				1 => {
					for &a in &pts {
						for &b in &pts {
							for &q in &os {
								push(Scene { lpos: a, lq: q, epos: EFIX, sp }, EFIX, b, q, sp.s);
							}
						}
					}
				}
				2 => {
					for &a in &pts {
						for &q0 in &os {
							for &q1 in &os {
								push(Scene { lpos: a, lq: q0, epos: EFIX, sp }, EFIX, a, q1, sp.s);
							}
						}
					}
				}
				3 => {
					for &a in &pts {
						for &b in &pts {
							for (i, &q0) in os.iter().enumerate() {
								let q1 = os[(i + 1) % os.len()];
								push(Scene { lpos: a, lq: q0, epos: EFIX, sp }, EFIX, b, q1, sp.s);
							}
						}
					}
				}
				_ => {
					for &a in &pts {
						for &q in &os {
							for s1 in [0.0f32, 0.5, 1.0] {
								push(Scene { lpos: a, lq: q, epos: EFIX, sp }, EFIX, a, q, s1);
							}
						}
					}
				}
			}
		}
	}
}
fn tween_one(which: usize, t: &TweenScene, ms: &[Motion], ctx: &mut Ctx) {
	let what = format!("tween of {} over {} frames (linear, issued after the first callback): start scene {}; targets: emitter {:?} listener {:?} orientation ({},{},{},{}) strength {}", TWEENS[which], t.frames, t.sc.desc(), t.epos, t.lpos, t.lq.x as f32, t.lq.y as f32, t.lq.z as f32, t.lq.w as f32, t.s);
	ctx.evals += 1;
	ctx.traces += 1;
	let out = match run_tween(which, t) {
		Ok(o) => o,
		Err(p) => {
			ctx.fail(format!("panic: {} :: tween of {}", p, TWEENS[which]), what);
			return;
		}
	};
	ctx.transitions += out.len() as u64 / IBS as u64;
	if let Some(i) = out.iter().position(|f| !f.0.is_finite() || !f.1.is_finite()) {
		ctx.fail(format!("output not finite :: tween of {}", TWEENS[which]), format!("{} -> frame {} = {:?}", what, i, out[i]));
		return;
	}
	// every frame is a product of an attenuation in [0,1] and ear gains in [1 - s, 1]
	let smax = t.sc.sp.s.max(t.s).clamp(0.0, 1.0) as f64;
	let top = if smax == 0.0 { (IN.0 as f64, IN.1 as f64) } else { (MONO.max(IN.0 as f64), MONO.max(IN.1 as f64)) };
	for (i, f) in out.iter().enumerate() {
		let too_low = t.sc.sp.curve.is_none() && ((f.0 as f64) < (1.0 - smax) * MONO.min(IN.0 as f64) - 1e-6 || (f.1 as f64) < (1.0 - smax) * MONO.min(IN.1 as f64) - 1e-6);
		if f.0 as f64 > top.0 + 1e-6 || f.1 as f64 > top.1 + 1e-6 || f.0 < 0.0 || f.1 < 0.0 || too_low {
			ctx.fail(format!("level outside attenuation x ear-gain bounds during a tween :: tween of {}", TWEENS[which]), format!("{} -> frame {} = {:?} of {:?}", what, i, f, out));
			break;
		}
	}
	// attenuation depends on the distance only and is non-increasing in it - also frame by frame while one end moves
	// along a straight line on which the distance is monotone (no panning: strength 0)
	if (which == 0 || which == 1) && t.sc.sp.s == 0.0 && t.s == 0.0 && t.sc.sp.curve.is_some() && t.frames as usize > IBS {
		let (a, b, fixed) = if which == 0 { (t.sc.epos, t.epos, t.sc.lpos) } else { (t.sc.lpos, t.lpos, t.sc.epos) };
		let ds: Vec<f64> = (0..=64).map(|k| len(sub(add(a, scale(sub(b, a), k as f64 / 64.0)), fixed))).collect();
		let grows = ds.windows(2).all(|w| w[1] >= w[0]) && ds[64] > ds[0];
		let shrinks = ds.windows(2).all(|w| w[1] <= w[0]) && ds[64] < ds[0];
		if grows || shrinks {
			for i in IBS..out.len() - 1 {
				let (x, y) = (out[i].0 as f64, out[i + 1].0 as f64);
				// strictly so while the tween is in progress, the curve is strictly monotone there and both frames are audible:
				// a level that stands still inside a chunk and jumps at its boundary is not "following the distance"
				let in_tween = i + 1 < IBS + t.frames as usize;
				let strict = in_tween && x > 1e-4 && y > 1e-4 && x < 0.999 * IN.0 as f64 && y < 0.999 * IN.0 as f64 && (x - y).abs() < 1e-9;
				if strict {
					ctx.fail(
						format!("the level stands still between two frames although the distance changes (stepwise instead of frame by frame) :: tween of {}", TWEENS[which]),
						format!("{} -> frames {} and {} both {}; left-channel frames {:?}", what, i, i + 1, x, out.iter().map(|f| f.0).collect::<Vec<_>>()),
					);
					break;
				}
				if (grows && y > x + 1e-6) || (shrinks && y < x - 1e-6) {
					ctx.fail(
						format!("the level does not follow the distance monotonically, frame by frame, while one end moves steadily {} :: tween of {}", if grows { "away" } else { "closer" }, TWEENS[which]),
						format!("{} -> frame {} = {} then frame {} = {}; left-channel frames {:?}", what, i, x, i + 1, y, out.iter().map(|f| f.0).collect::<Vec<_>>()),
					);
					break;
				}
			}
		}
	}
	// a listener turning in place: the ear gains follow the orientation frame by frame - a whole internal buffer that stands still at a
	// level different from the one before it is a step, not a turn
	if which == 2 && t.frames as usize > IBS && out.len() >= 2 * IBS {
		let before = out[IBS - 1];
		let chunk = &out[IBS..2 * IBS];
		let constant = chunk.iter().all(|f| (f.0 - chunk[0].0).abs() < 1e-9 && (f.1 - chunk[0].1).abs() < 1e-9);
		let jumped = (chunk[0].0 - before.0).abs() > 1e-3 || (chunk[0].1 - before.1).abs() > 1e-3;
		if constant && jumped {
			ctx.fail(
				format!("the ear gains jump at a buffer boundary and stand still inside the buffer while the listener turns (stepwise instead of frame by frame) :: tween of {}", TWEENS[which]),
				format!("{} -> frame {} = {:?}, then frames {}..{} all {:?}; all frames {:?}", what, IBS - 1, before, IBS, 2 * IBS, chunk[0], out),
			);
		}
	}
	// after the tween the scene renders like the static target scene
	let target = Scene { lpos: t.lpos, lq: t.lq, epos: t.epos, sp: Sp { s: t.s, ..t.sc.sp } };
	let mut c = Ctx::default();
	if let Some(want) = render(&target, &mut c, "tween target") {
		let l = out[out.len() - 1];
		if (l.0 as f64 - want.0).abs() > 1e-5 || (l.1 as f64 - want.1).abs() > 1e-5 {
			ctx.fail(format!("after a tween the level differs from the static target scene :: tween of {}", TWEENS[which]), format!("{} -> last frame {:?}, static target scene renders {:?}; frames {:?}", what, l, want, out));
		} else if l != (0.0, 0.0) {
			ctx.nontrivial_extra += 1;
		}
		ctx.state(hash64(&((want.0 * 1024.0) as i64, (want.1 * 1024.0) as i64)));
	}
	// q and -q denote the same orientation: a tween to the negated target quaternion renders the same trajectory
	if which == 2 || which == 3 {
		let qd0 = t.sc.lq.x * t.lq.x + t.sc.lq.y * t.lq.y + t.sc.lq.z * t.lq.z + t.sc.lq.w * t.lq.w;
		if qd0.abs() > 1e-3 {
			let tn = TweenScene { sc: t.sc, epos: t.epos, lpos: t.lpos, lq: Q { x: -t.lq.x, y: -t.lq.y, z: -t.lq.z, w: -t.lq.w }, s: t.s, frames: t.frames };
			ctx.evals += 1;
			match run_tween(which, &tn) {
				Ok(on) => {
					if let Some(i) = (0..out.len().min(on.len())).find(|&i| (out[i].0 - on[i].0).abs() > 2e-5 || (out[i].1 - on[i].1).abs() > 2e-5) {
						ctx.fail(
							format!("a tween to a target orientation and to the same orientation given as the negated quaternion render differently :: tween of {}", TWEENS[which]),
							format!("{} -> frame {}: {:?} vs {:?} (negated target); all frames {:?} vs {:?}", what, i, out[i], on[i], out, on),
						);
					}
				}
				Err(p) => ctx.fail(format!("panic: {} :: tween of {} to a negated quaternion", p, TWEENS[which]), what.clone()),
			}
		}
	}
	// the whole trajectory is unchanged by a common rigid motion
	let qd = t.sc.lq.x * t.lq.x + t.sc.lq.y * t.lq.y + t.sc.lq.z * t.lq.z + t.sc.lq.w * t.lq.w;
	if which == 4 || qd.abs() < 1e-3 {
		// strength does not move; between opposite orientations (180 degrees apart) the shorter arc is not unique
		return;
	}
	for m in ms {
		let moved = t.sc.moved(m);
		let tm = TweenScene { sc: moved, epos: add(qrot(m.r, t.epos), m.t), lpos: add(qrot(m.r, t.lpos), m.t), lq: qmul(m.r, t.lq), s: t.s, frames: t.frames };
		ctx.evals += 1;
		let Ok(om) = run_tween(which, &tm) else {
			ctx.fail(format!("panic :: tween of {} under motion {}", TWEENS[which], m.name), what.clone());
			continue;
		};
		let ulp = maxabs(&[tm.sc.lpos, tm.sc.epos, tm.epos, tm.lpos]) * 2f64.powi(-23);
		// the path passes through intermediate points: use the worst clearance / slope bound of the range
		let slope = 6.9 * 3.0 / (t.sc.sp.range.1 - t.sc.sp.range.0) as f64;
		let tol = 2e-5 + 8.0 * ulp * slope + smax * 4.0 * ulp / 0.05;
		for (i, (a, b)) in out.iter().zip(om.iter()).enumerate() {
			if (a.0 - b.0).abs() as f64 > tol || (a.1 - b.1).abs() as f64 > tol {
				ctx.fail(format!("a common rigid motion of listener and emitter changes the output during a tween :: tween of {}, {}", TWEENS[which], m.kind()), format!("{}; motion {} -> frame {}: {:?} vs moved {:?} (tolerance {:e}); all frames {:?} vs {:?}", what, m.name, i, a, b, tol, out, om));
				break;
			}
		}
	}
}

/// listener and emitter translated together (two tweens of the same duration issued in the same interval): the level
/// never moves, whatever the device callback sizes are
fn joint_case(tier: Tier, ctx: &mut Ctx) {
	let pts: Vec<V3> = vec![[0.0; 3], [1.0, 0.0, 0.0], [-3.0, 0.0, -1.0], [0.0, 3.0, 3.0], [3.0, -3.0, 1.0]];
	let os: Vec<Q> = orientations(Tier::Quick).iter().map(|o| o.1).collect();
	let shifts: Vec<V3> = vec![[4.0, 0.0, 0.0], [0.0, -6.0, 3.0], [-8.0, 8.0, -8.0]];
	let durations: Vec<u64> = tier.pick(vec![6, 9], vec![1, 6, 9, 16]);
	let patterns: Vec<Vec<usize>> = tier.pick(vec![vec![IBS], vec![3], vec![5, 1, 2]], vec![vec![IBS], vec![3], vec![5, 1, 2], vec![1], vec![7], vec![2, 9]]);
	const LFIX: V3 = [1.0, 0.0, -3.0];
	for curve in [None, Some(Easing::Linear), Some(Easing::InPowi(2))] {
		for s in [0.0f32, 0.75, 1.0] {
			let sp = Sp { range: (0.0, 10.0), curve, s };
			for &epos in &pts {
				for &lq in &os {
					for &d in &shifts {
						for &frames in &durations {
							for (pat, clocked) in patterns.iter().flat_map(|p| [(p, false), (p, true)]) {
								let sc = Scene { lpos: LFIX, lq, epos, sp };
								ctx.evals += 1;
								ctx.traces += 1;
								let what = format!("listener and emitter both moved by {:?} with linear tweens of {} frames issued in the same interval after the first callback{}; device callbacks of {:?} frames (repeating); start scene {}", d, frames, if clocked { ", both scheduled for tick 7 of a clock that runs at one tick per frame" } else { "" }, pat, sc.desc());
								let r = catch(|| -> Result<Vec<(f32, f32)>, String> {
									let mut m = mgr();
									let mut l = m.add_listener(mv(sc.lpos), mq(sc.lq)).expect("listener");
									let mut tr = m.add_spatial_sub_track(&l, mv(sc.epos), sp_builder(sc.sp)).expect("track");
									tr.play(input()).expect("play");
									let mut clock = m.add_clock(kira::clock::ClockSpeed::TicksPerSecond(SR as f64)).expect("clock");
									clock.start();
									let mut out = vec![];
									pump(&mut m, 1, &mut out)?;
									let mut tw = tween_frames(frames);
									if clocked {
										tw.start_time = StartTime::ClockTime(kira::clock::ClockTime { clock: clock.id(), ticks: 7, fraction: 0.0 });
									}
									l.set_position(mv(add(sc.lpos, d)), tw);
									tr.set_position(mv(add(sc.epos, d)), tw);
									let mut k = 0;
									while out.len() < IBS + 8 + frames as usize + 2 * IBS {
										let rep = rig::render_stereo(&mut m, pat[k % pat.len()], &mut out);
										if let Some(p) = rep.panic {
											return Err(p);
										}
										k += 1;
									}
									Ok(out)
								})
								.and_then(|r| r);
								let out = match r {
									Ok(o) => o,
									Err(p) => {
										ctx.fail(format!("panic: {} :: joint translation", p), what);
										continue;
									}
								};
								ctx.transitions += out.len() as u64;
								let want = out[IBS - 1];
								let ulp = maxabs(&[add(sc.lpos, d), add(sc.epos, d)]) * 2f64.powi(-23);
								let tol = sc.tol(4.0 * ulp, 4.0 * ulp) + 2e-6;
								if let Some(i) = out.iter().position(|f| (f.0 - want.0).abs() as f64 > tol || (f.1 - want.1).abs() as f64 > tol || !f.0.is_finite() || !f.1.is_finite()) {
									ctx.fail(
										"a common rigid motion of listener and emitter changes the output during a tween :: listener and emitter translated together".to_string(),
										format!("{} -> frame {} = {:?}, level at rest {:?} (tolerance {:e}); frames {:?}", what, i, out[i], want, tol, out),
									);
								} else if want != (0.0, 0.0) {
									ctx.nontrivial_extra += 1;
								}
								ctx.outcome(hash64(&((want.0 * 4096.0).round() as i32, (want.1 * 4096.0).round() as i32, frames, pat.len())));
							}
						}
					}
				}
			}
		}
	}
}

/// E2: the gameplay thread creates a listener, then a spatial track that hears through it, then plays on the track, while the
/// audio thread runs callbacks. In whatever callback the track's sound is first processed, the listener (created before the
/// track) exists for the audio thread too: the track is audible from its very first processed callback.
fn e2_adoption(tier: Tier, nested: bool, ctx: &mut Ctx) {
	use crate::sched::{self, Config, Exec};
	fn filt(s: &'static str) -> bool {
		s.starts_with("res.")
	}
	let cfg = Config { filter: filt, horizon: 3000, max_spin_rounds: 8, record_sites: true, ..Default::default() };
	#[derive(Debug, Clone, Default, PartialEq)]
	struct Obs {
		/// per callback: (frames the sound had emitted before, after, some output frame non-zero)
		cbs: Vec<(u64, u64, bool)>,
		panics: Vec<String>,
	}
	struct Counting(Arc<std::sync::atomic::AtomicU64>);
	impl Sound for Counting {
		fn process(&mut self, out: &mut [Frame], _dt: f64, _info: &Info) {
			out.fill(Frame::new(IN.0, IN.1));
			self.0.fetch_add(out.len() as u64, std::sync::atomic::Ordering::SeqCst);
		}
		fn finished(&self) -> bool {
			false
		}
	}
	struct CountingData(Arc<std::sync::atomic::AtomicU64>);
	impl SoundData for CountingData {
		type Error = ();
		type Handle = ();
		fn into_sound(self) -> Result<(Box<dyn Sound>, ()), ()> {
			Ok((Box::new(Counting(self.0)), ()))
		}
	}
	let mut body = |prefix: &[u8]| -> (sched::RunResult, Obs) {
		let mut m = mgr();
		let mut parent = if nested { Some(m.add_sub_track(plain_builder()).expect("parent")) } else { None };
		let mut buf = vec![0.0f32; 2 * IBS];
		rig::callback(&mut m, &mut buf, IBS, 2);
		let mut renderer = m.backend_mut().renderer.take().unwrap();
		let emitted = Arc::new(std::sync::atomic::AtomicU64::new(0));
		let obs = Arc::new(Mutex::new(Obs::default()));
		let keep: Arc<Mutex<Vec<Box<dyn std::any::Any + Send>>>> = Arc::new(Mutex::new(vec![]));
		let mut ex = Exec::begin(&cfg, prefix);
		{
			let (emitted, keep) = (emitted.clone(), keep.clone());
			ex.spawn("game", move || {
				let l = m.add_listener(mv([0.0, 0.0, 0.0]), mq(QID)).expect("listener");
				kira::verif::sync_point("boundary:game");
				let sp = SpatialTrackBuilder::new().sound_capacity(2).spatialization_strength(0.0).attenuation_function(None);
				let mut t = match parent.as_mut() {
					Some(p) => p.add_spatial_sub_track(&l, mv([0.0, 0.0, -1.0]), sp).expect("track"),
					None => m.add_spatial_sub_track(&l, mv([0.0, 0.0, -1.0]), sp).expect("track"),
				};
				kira::verif::sync_point("boundary:game");
				t.play(CountingData(emitted)).map_err(|_| ()).expect("play");
				let mut k = keep.lock().unwrap();
				k.push(Box::new(t));
				k.push(Box::new(l));
				k.push(Box::new(parent));
				k.push(Box::new(m));
			});
		}
		{
			let (obs, emitted) = (obs.clone(), emitted.clone());
			ex.spawn("audio", move || {
				let mut buf = [0.0f32; 2 * IBS];
				for _ in 0..3 {
					let before = emitted.load(std::sync::atomic::Ordering::SeqCst);
					let rep = rig::callback_on(&mut renderer, &mut buf, IBS, 2);
					if let Some(p) = rep.panic {
						obs.lock().unwrap().panics.push(p);
						break;
					}
					let after = emitted.load(std::sync::atomic::Ordering::SeqCst);
					obs.lock().unwrap().cbs.push((before, after, buf.iter().any(|v| *v != 0.0)));
					kira::verif::sync_point("boundary:audio");
				}
				// the renderer is dropped here, after the last explored step
			});
		}
		let res = ex.run();
		let o = obs.lock().unwrap().clone();
		keep.lock().unwrap().clear();
		(res, o)
	};
	let mut fails: Vec<(String, String)> = vec![];
	let mut outcomes = std::collections::HashSet::new();
	let mut nontrivial = 0u64;
	let mut judge = |res: &sched::RunResult, o: &Obs, choices: &[u8]| {
		outcomes.insert(hash64(&format!("{:?}", o)));
		if choices.iter().any(|c| *c != 0) {
			nontrivial += 1;
		}
		for p in res.panics.iter().chain(o.panics.iter()) {
			fails.push((format!("panic while a listener and its spatial track are created during a callback: {} :: E2 adoption", rig::normalize_panic(p)), sched::fmt_schedule(res)));
		}
		if let Some(k) = o.cbs.iter().position(|c| c.1 > c.0 && !c.2) {
			fails.push((
				format!("no listener: a spatial track is silent in a callback in which its sound is processed although its listener was created before it :: E2 adoption{}", if nested { ", track nested under a plain track" } else { "" }),
				format!("callback {} of the race: the sound emitted {} frames, the output is silent; per callback (emitted before, after, audible) {:?}; schedule {}", k, o.cbs[k].1 - o.cbs[k].0, o.cbs, sched::fmt_schedule(res)),
			));
		}
	};
	let stats = sched::explore(tier.pick(Some(2), Some(3)), 2_000_000, &mut body, &mut judge);
	sched::report(ctx, &stats);
	if let Some(e) = stats.error {
		ctx.fail(format!("MACHINERY: scheduler error: {}", e), "");
	}
	ctx.schedules += stats.schedules;
	ctx.evals += stats.schedules;
	ctx.traces += stats.schedules;
	ctx.transitions += stats.schedules * stats.max_points as u64;
	ctx.count(&format!("e2_adoption_schedules[nested={}]", nested), stats.schedules);
	for o in outcomes {
		ctx.outcome(o);
		ctx.state(o);
	}
	ctx.nontrivial_extra += nontrivial;
	for (sig, d) in fails {
		ctx.fail(sig, d);
	}
}

/// the direction from an ear to the emitter degenerates when the emitter sits exactly on that ear
fn ear_positions_case(tier: Tier, ctx: &mut Ctx) {
	for lpos in listener_positions(tier) {
		for (oname, lq, _) in orientations(tier) {
			let right = qrot(lq, [1.0, 0.0, 0.0]);
			for side in [1.0f64, -1.0] {
				for off in [0.1f64, 0.1 + 1e-6, 0.09, 0.11] {
					for s in [0.5f32, 0.75, 1.0] {
						for curve in [None, Some(Easing::Linear)] {
							let epos = add(lpos, scale(right, side * off));
							let sc = Scene { lpos, lq, epos, sp: Sp { range: (1.0, 100.0), curve, s } };
							let what = format!("emitter {} the listener's {} ear (offset {} along its right axis), orientation {}", if off == 0.1 { "exactly at" } else { "next to" }, if side > 0.0 { "right" } else { "left" }, off, oname);
							let Some((l, r)) = render(&sc, ctx, "ear positions") else { continue };
							ctx.transitions += 1;
							// distance 0.09..0.11 < min distance 1: no attenuation; each ear gain lies in [1 - s, 1] of the mono / own-channel mix
							let lo = |ch: f64| (1.0 - s as f64) * MONO.min(ch) - 1e-6;
							let hi = |ch: f64| MONO.max(ch) + 1e-6;
							if l < lo(IN.0 as f64) || r < lo(IN.1 as f64) || l > hi(IN.0 as f64) || r > hi(IN.1 as f64) {
								ctx.fail(
									format!("an ear gain is outside [1 - strength, 1] :: emitter {} an ear position", if off == 0.1 { "exactly at" } else { "next to" }),
									format!("{}; {} -> output ({}, {}), bounds left [{}, {}] right [{}, {}]", sc.desc(), what, l, r, lo(IN.0 as f64), hi(IN.0 as f64), lo(IN.1 as f64), hi(IN.1 as f64)),
								);
							} else {
								ctx.nontrivial_extra += 1;
							}
							ctx.state(hash64(&((l * 4096.0) as i64, (r * 4096.0) as i64)));
						}
					}
				}
			}
		}
	}
}

// ---------------------------------------------------------------------------------------------
// case table

#[derive(Clone, Debug)]
enum Case {
	Lattice { range: usize, lpos: usize, orient: usize },
	Far { range: usize },
	Degenerate,
	History(u64),
	Param(usize),
	Nesting(u64),
	Tween(usize),
	Joint,
	E2Adoption(bool),
	/// the emitter exactly at (and a hair next to) one of the listener's ear positions
	EarPositions,
}
fn cases(tier: Tier) -> Vec<Case> {
	let mut v = vec![];
	for range in 0..ranges(tier).len() {
		for lpos in 0..listener_positions(tier).len() {
			for orient in 0..orientations(tier).len() {
				v.push(Case::Lattice { range, lpos, orient });
			}
		}
	}
	v.extend((0..ranges(tier).len()).map(|range| Case::Far { range }));
	v.push(Case::Degenerate);
	v.extend((0..HISTORIES.len() as u64).map(Case::History));
	v.extend((0..PLACEMENTS.len()).map(Case::Param));
	v.extend((0..NESTINGS.len() as u64).map(Case::Nesting));
	v.extend((0..TWEENS.len()).map(Case::Tween));
	v.push(Case::EarPositions);
	v.push(Case::Joint);
	v.push(Case::E2Adoption(false));
	v.push(Case::E2Adoption(true));
	v
}

impl Check for C15 {
	fn id(&self) -> &'static str { "C15" }
	fn level(&self) -> Level { Level::Exploration }
	fn num_cases(&self, tier: Tier) -> u64 { cases(tier).len() as u64 }
	fn describe(&self, tier: Tier, idx: u64) -> String {
		match cases(tier)[idx as usize].clone() {
			Case::Lattice { range, lpos, orient } => format!(
				"lattice: distances {:?}, listener at {:?} oriented {}, x {} emitter positions {:?}^3 x curves {:?} x strengths {:?} x (scene, mirror image, {} rigid motions)",
				ranges(tier)[range],
				listener_positions(tier)[lpos],
				orientations(tier)[orient].0,
				emitters(tier).len(),
				coords(tier),
				curves(tier).iter().map(|c| curve_name(*c)).collect::<Vec<_>>(),
				strengths(tier),
				motions(tier).len()
			),
			Case::Far { range } => format!("far-apart scenes: listener / emitter on the 1e6 points and the origin x orientations x curves x strengths {{0,0.75,1}}, distances {:?}", ranges(tier)[range]),
			Case::Degenerate => "degenerate distance ranges (2,2), (0,0), (5,1)".into(),
			Case::History(h) => format!("listener history: {} x 5 emitters x 4 track settings x 2 orientations", HISTORIES[h as usize]),
			Case::Param(p) => format!("listener-distance mapping {} x 2 easings x 3 listener x 6 emitter positions x 3 moves", PLACEMENTS[p]),
			Case::Nesting(n) => format!("nesting: {} x emitter lattice x 9 track settings x 3 orientations", NESTINGS[n as usize]),
			Case::Tween(t) => format!("tween of {} x start/target lattice x 9 track settings x durations x rigid motions", TWEENS[t]),
			Case::E2Adoption(n) => format!("E2 interleavings: game(add_listener; add_spatial_sub_track{}; play) || audio(3 callbacks), scheduling points = resource-controller steps, free switches between operations: the track is audible in the first callback that processes its sound", if n { " on a plain parent track" } else { "" }),
			Case::Joint => "listener and emitter translated together by two tweens of the same duration x 5 emitters x orientations x 3 shifts x durations x 9 track settings x device callback patterns (multiples and non-multiples of the internal buffer): the level never moves; fly-by: one end crosses the audible sphere on a line that starts and ends beyond the maximum distance (at once / over 1-3 buffers): the attenuation of every frame is that of its own distance".into(),
			Case::EarPositions => "emitter exactly at / a hair next to an ear position (listener +- 0.1 along its right axis) x listener positions x orientations x strengths x curves: finite, ear gains in [1 - s, 1], the emitter's side not quieter".into(),
		}
	}
	fn sig_hint(&self, tier: Tier, idx: u64) -> String { format!("{:?}", cases(tier)[idx as usize]) }
	fn rule(&self) -> String {
		"every scene of the product lattice is rendered through the real mixer (2 callbacks of 4 frames, constant stereo input (0.5,0.25)); evaluations = renderings (scene, mirror image and rigidly moved copies each count) plus scripted histories; non-trivial = base lattice scenes / scenario steps whose settled output frame is not silent (distinct by construction); outcomes = distinct settled output frames quantised to 1/4096".into()
	}
	fn assumptions(&self) -> Vec<String> {
		vec![
			"relational laws (mirror, rigid motion, monotonicity) are evaluated for |coordinate| <= 3 and motions <= 50 units; the 1e6 points are used for finiteness, bounds and the min/max clauses only".into(),
			"comparison tolerances: mirror 1e-6 (axis-aligned orientations), rigid motion 1e-5, both widened by the f32 resolution of the moved coordinates seen through the attenuation slope and the 0.1-unit ear offset".into(),
			"the attenuation curve is judged against: relative volume = easing(1 - (d-min)/(max-min)), 0 dB at 1, silence (-60 dB) at 0, linear in dB".into(),
			"min > max and min == max distance ranges are reported under their own signatures".into(),
		]
	}
	fn extra_evidence(&self, tier: Tier) -> Vec<(String, J)> {
		vec![
			("emitter_lattice".into(), J::s(format!("{:?}^3", coords(tier)))),
			("listener_positions".into(), J::u(listener_positions(tier).len() as u64)),
			("orientations".into(), J::arr_str(orientations(tier).iter().map(|o| o.0.to_string()))),
			("ranges".into(), J::s(format!("{:?}", ranges(tier)))),
			("curves".into(), J::arr_str(curves(tier).iter().map(|c| curve_name(*c)))),
			("strengths".into(), J::s(format!("{:?}", strengths(tier)))),
			("motions".into(), J::arr_str(motions(tier).iter().map(|m| m.name.to_string()))),
		]
	}
	fn case_timeout_ms(&self, _tier: Tier) -> u64 { 600_000 }
	fn run_case(&self, tier: Tier, idx: u64, ctx: &mut Ctx) {
		let case = cases(tier)[idx as usize].clone();
		let r = catch(|| match case.clone() {
			Case::Lattice { range, lpos, orient } => {
				let (on, q, aligned) = orientations(tier)[orient];
				lattice_case(tier, ranges(tier)[range], listener_positions(tier)[lpos], on, q, aligned, ctx)
			}
			Case::Far { range } => far_case(tier, ranges(tier)[range], ctx),
			Case::Degenerate => {
				degenerate_case(ctx);
				linked_strength_and_sends_case(ctx);
			}
			Case::History(h) => history_case(h, ctx),
			Case::Param(p) => param_case(p, ctx),
			Case::Nesting(n) => nesting_case(tier, n, ctx),
			Case::Tween(t) => tween_case(tier, t, ctx),
			Case::EarPositions => ear_positions_case(tier, ctx),
			Case::Joint => {
				joint_case(tier, ctx);
				flyby_case(ctx);
			}
			Case::E2Adoption(n) => e2_adoption(tier, n, ctx),
		});
		if let Err(p) = r {
			ctx.fail(format!("panic: {} :: {:?}", p, case), self.describe(tier, idx));
		}
	}
}
