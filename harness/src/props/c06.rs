//! C06 — tweens start on time, follow their easing, end exactly on target, never jump.
//!
//! E1: exhaustive product of tweenable types x value pairs x durations x easings x start modes x
//! ALL update-step sequences (3^6) x placements of a second set(); the real `kira::Parameter<T>`
//! and the tweener modulator are run in lock-step with `ParamModel`, an independent discrete
//! reference of the documented rule, and the documented laws are asserted separately (with the
//! documented one-update timing slack) so that the reference cannot bless wrong behaviour.

use crate::engine::{hash64, Check, Ctx, Level, Tier};
use crate::json::J;
use crate::rig::catch;
use glam::{Quat, Vec3};
use kira::clock::ClockSpeed;
use kira::info::MockInfoBuilder;
use kira::modulator::tweener::TweenerBuilder;
use kira::modulator::ModulatorBuilder;
use kira::{Decibels, Easing, Mix, Panning, Parameter, PlaybackRate, Semitones, StartTime, Tween, Tweenable, Value};
use std::fmt::Debug;
use std::time::Duration;

pub struct C06;

// ---------------------------------------------------------------------------------------------
// reference easing (from the documentation of `Easing`)

pub fn ref_ease(e: Easing, x: f64) -> f64 {
	fn inout(x: f64, f: impl Fn(f64) -> f64) -> f64 {
		let x2 = x * 2.0;
		if x2 < 1.0 {
			0.5 * f(x2)
		} else {
			0.5 * (1.0 - f(2.0 - x2)) + 0.5
		}
	}
	match e {
		Easing::Linear => x,
		Easing::InPowi(p) => x.powi(p),
		Easing::OutPowi(p) => 1.0 - (1.0 - x).powi(p),
		Easing::InOutPowi(p) => inout(x, |v| v.powi(p)),
		Easing::InPowf(p) => x.powf(p),
		Easing::OutPowf(p) => 1.0 - (1.0 - x).powf(p),
		Easing::InOutPowf(p) => inout(x, |v| v.powf(p)),
	}
}

// ---------------------------------------------------------------------------------------------
// tweenable value algebra used by the reference

pub trait TV: Tweenable + Copy + PartialEq + Debug + 'static {
	fn name() -> &'static str;
	fn lattice() -> Vec<Self>;
	/// documented rule: start + (target - start) * amount
	fn ref_lerp(a: Self, b: Self, amount: f64) -> Self;
	/// |a - b| in a type-specific norm
	fn dist(a: Self, b: Self) -> f64;
	/// true when v lies between a and b (component-wise), with a tiny tolerance
	fn between(v: Self, a: Self, b: Self) -> bool;
	fn scale(a: Self, b: Self) -> f64 {
		Self::dist(a, b).max(1.0)
	}
	/// exact comparison demanded between implementation and reference?
	fn exact() -> bool {
		true
	}
	/// "the same value" (bit-for-bit unless the type has several representations of one value)
	fn same(a: Self, b: Self) -> bool {
		a == b
	}
}

fn btw(v: f64, a: f64, b: f64) -> bool {
	let lo = a.min(b);
	let hi = a.max(b);
	let tol = 1e-9 * (hi - lo).abs().max(hi.abs()).max(1.0) * 1e-3;
	v >= lo - tol && v <= hi + tol
}

impl TV for f64 {
	fn name() -> &'static str {
		"f64"
	}
	fn lattice() -> Vec<Self> {
		vec![0.0, 1.0, -3.5, 20000.0]
	}
	fn ref_lerp(a: Self, b: Self, x: f64) -> Self {
		a + (b - a) * x
	}
	fn dist(a: Self, b: Self) -> f64 {
		(a - b).abs()
	}
	fn between(v: Self, a: Self, b: Self) -> bool {
		btw(v, a, b)
	}
}
impl TV for f32 {
	fn name() -> &'static str {
		"f32"
	}
	fn lattice() -> Vec<Self> {
		vec![0.0, 1.0, -3.5, 0.75]
	}
	fn ref_lerp(a: Self, b: Self, x: f64) -> Self {
		a + (b - a) * x as f32
	}
	fn dist(a: Self, b: Self) -> f64 {
		(a - b).abs() as f64
	}
	fn between(v: Self, a: Self, b: Self) -> bool {
		let lo = a.min(b);
		let hi = a.max(b);
		v >= lo - 1e-6 * (hi - lo).abs().max(1.0) && v <= hi + 1e-6 * (hi - lo).abs().max(1.0)
	}
}
macro_rules! f32_newtype {
	($t:ident, $name:expr, $lat:expr) => {
		impl TV for $t {
			fn name() -> &'static str {
				$name
			}
			fn lattice() -> Vec<Self> {
				$lat.iter().map(|v: &f32| $t(*v)).collect()
			}
			fn ref_lerp(a: Self, b: Self, x: f64) -> Self {
				$t(a.0 + (b.0 - a.0) * x as f32)
			}
			fn dist(a: Self, b: Self) -> f64 {
				(a.0 - b.0).abs() as f64
			}
			fn between(v: Self, a: Self, b: Self) -> bool {
				<f32 as TV>::between(v.0, a.0, b.0)
			}
		}
	};
}
f32_newtype!(Decibels, "Decibels", [0.0f32, -120.0, -6.0, 6.0, -60.0]);
f32_newtype!(Panning, "Panning", [0.0f32, -1.0, 1.0, 0.25]);
f32_newtype!(Mix, "Mix", [0.0f32, 1.0, 0.5, 0.25]);
macro_rules! f64_newtype {
	($t:ident, $name:expr, $lat:expr) => {
		impl TV for $t {
			fn name() -> &'static str {
				$name
			}
			fn lattice() -> Vec<Self> {
				$lat.iter().map(|v: &f64| $t(*v)).collect()
			}
			fn ref_lerp(a: Self, b: Self, x: f64) -> Self {
				$t(a.0 + (b.0 - a.0) * x)
			}
			fn dist(a: Self, b: Self) -> f64 {
				(a.0 - b.0).abs()
			}
			fn between(v: Self, a: Self, b: Self) -> bool {
				btw(v.0, a.0, b.0)
			}
		}
	};
}
f64_newtype!(PlaybackRate, "PlaybackRate", [1.0f64, 0.0, -1.0, 2.5]);
f64_newtype!(Semitones, "Semitones", [0.0f64, 12.0, -7.0, 0.5]);
impl TV for Vec3 {
	fn name() -> &'static str {
		"Vec3"
	}
	fn lattice() -> Vec<Self> {
		vec![Vec3::ZERO, Vec3::new(1.0, -2.0, 3.0), Vec3::new(-5.0, 0.0, 0.5), Vec3::new(100.0, 100.0, -100.0)]
	}
	fn ref_lerp(a: Self, b: Self, x: f64) -> Self {
		let x = x as f32;
		Vec3::new(a.x + (b.x - a.x) * x, a.y + (b.y - a.y) * x, a.z + (b.z - a.z) * x)
	}
	fn dist(a: Self, b: Self) -> f64 {
		(a - b).length() as f64
	}
	fn between(v: Self, a: Self, b: Self) -> bool {
		<f32 as TV>::between(v.x, a.x, b.x) && <f32 as TV>::between(v.y, a.y, b.y) && <f32 as TV>::between(v.z, a.z, b.z)
	}
}
impl TV for Duration {
	fn name() -> &'static str {
		"Duration"
	}
	fn lattice() -> Vec<Self> {
		vec![
			Duration::from_millis(10),
			Duration::ZERO,
			Duration::from_secs_f64(1.5),
			Duration::from_millis(100),
		]
	}
	fn ref_lerp(a: Self, b: Self, x: f64) -> Self {
		let a = a.as_secs_f64();
		let b = b.as_secs_f64();
		Duration::from_secs_f64((a + (b - a) * x).max(0.0))
	}
	fn dist(a: Self, b: Self) -> f64 {
		(a.as_secs_f64() - b.as_secs_f64()).abs()
	}
	fn between(v: Self, a: Self, b: Self) -> bool {
		let lo = a.min(b);
		let hi = a.max(b);
		v + Duration::from_nanos(2) >= lo && v <= hi + Duration::from_nanos(2)
	}
}
impl TV for ClockSpeed {
	fn name() -> &'static str {
		"ClockSpeed"
	}
	fn lattice() -> Vec<Self> {
		vec![
			ClockSpeed::TicksPerSecond(2.0),
			ClockSpeed::SecondsPerTick(0.25),
			ClockSpeed::TicksPerMinute(30.0),
			ClockSpeed::TicksPerSecond(8.0),
		]
	}
	fn ref_lerp(a: Self, b: Self, x: f64) -> Self {
		// documented: interpolation happens in the unit of the target
		match b {
			ClockSpeed::SecondsPerTick(b) => {
				let a = a.as_seconds_per_tick();
				ClockSpeed::SecondsPerTick(a + (b - a) * x)
			}
			ClockSpeed::TicksPerSecond(b) => {
				let a = a.as_ticks_per_second();
				ClockSpeed::TicksPerSecond(a + (b - a) * x)
			}
			ClockSpeed::TicksPerMinute(b) => {
				let a = a.as_ticks_per_minute();
				ClockSpeed::TicksPerMinute(a + (b - a) * x)
			}
		}
	}
	fn dist(a: Self, b: Self) -> f64 {
		(a.as_ticks_per_second() - b.as_ticks_per_second()).abs()
	}
	fn between(v: Self, a: Self, b: Self) -> bool {
		// monotone in every unit, so ticks/s is representative
		btw(v.as_ticks_per_second(), a.as_ticks_per_second(), b.as_ticks_per_second())
	}
	fn same(a: Self, b: Self) -> bool {
		// one speed has three spellings; kira re-expresses the old value in the target's unit
		let (x, y) = (a.as_ticks_per_second(), b.as_ticks_per_second());
		(x - y).abs() <= 4.0 * f64::EPSILON * x.abs().max(y.abs())
	}
}
impl TV for Quat {
	fn name() -> &'static str {
		"Quat"
	}
	fn lattice() -> Vec<Self> {
		vec![
			Quat::IDENTITY,
			Quat::from_rotation_y(1.0),
			Quat::from_rotation_x(-2.0),
			Quat::from_axis_angle(Vec3::new(1.0, 1.0, 0.0).normalize(), 0.6),
		]
	}
	fn ref_lerp(a: Self, b: Self, x: f64) -> Self {
		// spherical interpolation along the shorter arc, computed in f64
		let av = [a.x as f64, a.y as f64, a.z as f64, a.w as f64];
		let mut bv = [b.x as f64, b.y as f64, b.z as f64, b.w as f64];
		let mut dot: f64 = av.iter().zip(bv.iter()).map(|(p, q)| p * q).sum();
		if dot < 0.0 {
			for v in bv.iter_mut() {
				*v = -*v;
			}
			dot = -dot;
		}
		let (wa, wb) = if dot > 1.0 - 1e-9 {
			(1.0 - x, x)
		} else {
			let th = dot.clamp(-1.0, 1.0).acos();
			(((1.0 - x) * th).sin() / th.sin(), (x * th).sin() / th.sin())
		};
		let r: Vec<f64> = (0..4).map(|i| av[i] * wa + bv[i] * wb).collect();
		let n = r.iter().map(|v| v * v).sum::<f64>().sqrt();
		Quat::from_xyzw((r[0] / n) as f32, (r[1] / n) as f32, (r[2] / n) as f32, (r[3] / n) as f32)
	}
	fn dist(a: Self, b: Self) -> f64 {
		// angle between the rotations (well-conditioned near 0, unlike acos(dot))
		let av = [a.x as f64, a.y as f64, a.z as f64, a.w as f64];
		let mut bv = [b.x as f64, b.y as f64, b.z as f64, b.w as f64];
		let dot: f64 = av.iter().zip(bv.iter()).map(|(p, q)| p * q).sum();
		if dot < 0.0 {
			for v in bv.iter_mut() {
				*v = -*v;
			}
		}
		let dm: f64 = av.iter().zip(bv.iter()).map(|(p, q)| (p - q) * (p - q)).sum::<f64>().sqrt();
		let dp: f64 = av.iter().zip(bv.iter()).map(|(p, q)| (p + q) * (p + q)).sum::<f64>().sqrt();
		4.0 * dm.atan2(dp)
	}
	fn between(_v: Self, _a: Self, _b: Self) -> bool {
		true
	}
	fn exact() -> bool {
		false
	}
	fn same(a: Self, b: Self) -> bool {
		Self::dist(a, b) <= 1e-5
	}
}

// ---------------------------------------------------------------------------------------------
// the reference model

#[derive(Debug, Clone, Copy, PartialEq)]
pub enum SM {
	Imm,
	Delayed(f64),
	/// start when the clock is ticking and has reached (ticks, fraction)
	Clock(u64, f64),
	/// a clock id that does not exist
	ClockMissing,
}

#[derive(Debug, Clone, Copy)]
pub struct ClockNow {
	pub ticking: bool,
	pub ticks: u64,
	pub fraction: f64,
}

#[derive(Debug, Clone)]
pub enum PState<T> {
	Idle,
	Tw {
		start: T,
		target: T,
		time: f64,
		dur: f64,
		easing: Easing,
		sm: SM,
		started_at_update: Option<u64>,
	},
}

#[derive(Debug, Clone)]
pub struct ParamModel<T: TV> {
	pub state: PState<T>,
	pub value: T,
	pub prev: T,
	pub updates: u64,
}

impl<T: TV> ParamModel<T> {
	pub fn new(v: T) -> Self {
		Self {
			state: PState::Idle,
			value: v,
			prev: v,
			updates: 0,
		}
	}
	pub fn set(&mut self, target: T, dur: f64, easing: Easing, sm: SM) {
		self.state = PState::Tw {
			start: self.value,
			target,
			time: 0.0,
			dur,
			easing,
			sm,
			started_at_update: None,
		};
	}
	/// returns true when the tween finished in this update
	pub fn update(&mut self, dt: f64, clock: Option<ClockNow>) -> bool {
		self.prev = self.value;
		self.updates += 1;
		let mut finished = false;
		let mut new_state = None;
		if let PState::Tw {
			start,
			target,
			time,
			dur,
			easing,
			sm,
			started_at_update,
		} = &mut self.state
		{
			let started = match sm {
				SM::Imm => true,
				SM::Delayed(rem) => {
					if *rem <= 0.0 {
						true
					} else {
						*rem = (*rem - dt).max(0.0);
						false
					}
				}
				SM::Clock(t, f) => match clock {
					Some(c) => c.ticking && (c.ticks, c.fraction) >= (*t, *f),
					None => false,
				},
				SM::ClockMissing => false,
			};
			if started {
				if started_at_update.is_none() {
					*started_at_update = Some(self.updates);
				}
				*time += dt;
				if *time >= *dur {
					self.value = *target;
					finished = true;
					new_state = Some(PState::Idle);
				} else {
					self.value = T::ref_lerp(*start, *target, ref_ease(*easing, *time / *dur));
				}
			}
		}
		if let Some(s) = new_state {
			self.state = s;
		}
		finished
	}
}

// ---------------------------------------------------------------------------------------------
// enumeration

const DTS: [f64; 3] = [0.5, 1.0, 2.0];
const DURS: [f64; 5] = [0.0, 0.25, 1.0, 2.5, 4.0];
const NUPD: usize = 6; // thorough; quick uses the first 5 updates

fn easings() -> Vec<Easing> {
	vec![
		Easing::Linear,
		Easing::InPowi(2),
		Easing::OutPowi(3),
		Easing::InOutPowi(2),
		Easing::InPowf(0.5),
		Easing::OutPowf(2.5),
		Easing::InOutPowf(1.7),
	]
}

#[derive(Debug, Clone, Copy, PartialEq)]
enum StartMode {
	Imm,
	Delayed0,
	Delayed15,
	/// clock reaches the start time at update k (0-based), k in 0..=3
	ClockAt(usize),
	ClockMissing,
	/// clock has reached the time but is paused until update 2
	ClockPausedUntil2,
}
fn start_modes() -> Vec<StartMode> {
	vec![
		StartMode::Imm,
		StartMode::Delayed0,
		StartMode::Delayed15,
		StartMode::ClockAt(0),
		StartMode::ClockAt(1),
		StartMode::ClockAt(3),
		StartMode::ClockMissing,
		StartMode::ClockPausedUntil2,
	]
}

const NTYPES: u64 = 12; // 11 Parameter<T> + the tweener modulator

fn type_name(t: u64) -> &'static str {
	match t {
		0 => "f64",
		1 => "f32",
		2 => "Decibels",
		3 => "Panning",
		4 => "PlaybackRate",
		5 => "Vec3",
		6 => "Quat",
		7 => "Duration",
		8 => "ClockSpeed",
		9 => "Mix",
		10 => "Semitones",
		_ => "tweener-modulator",
	}
}

fn lattice_cases() -> u64 {
	NTYPES * start_modes().len() as u64 * DURS.len() as u64 * easings().len() as u64
}
/// tweens observed through the whole engine (AudioManager + device callbacks of arbitrary sizes)
const ENGINE_CASES: u64 = 11;
const ENGINE_NAMES: [&str; 11] = [
	"engine: tweener modulator 0->1 over 2 s linked to a sound's volume, 6 callback partitions of 32 frames (internal buffer 4)",
	"engine: sound set_volume(-20 dB -> 0 dB over 2 s), 6 callback partitions",
	"engine: clock set_speed(1 -> 4 ticks/s over 2 s) while the clock is not ticking, start 3 s later, 6 callback partitions",
	"engine: clock set_speed(1 -> 4 ticks/s over 2 s) on a ticking clock, 6 callback partitions",
	"engine: sound set_volume(linked to a tweener, 1 s tween); after the tween the tweener moves and the volume follows, 6 callback partitions",
	"engine: listener set_position tween seen by an effect on a spatial track: each chunk starts where the previous one ended, 6 callback partitions",
	"engine: spatial track set_position(x = 1 -> 17 over 2 s) while a sound plays on it, linear attenuation over 1..17: the level follows the distance frame by frame, 6 callback partitions",
	"engine: streaming sound set_volume(0 dB -> -20 dB over 1 s) while its decoder delivers nothing for 4 s (6 callback partitions): when audio comes back the tween has long ended",
	"engine: paused sound / track, resume_at(Delayed 1 s, fade-in of 2 s with a non-linear easing): once the start time is reached the fade follows its easing (chunk ends)",
	"engine: volume control hosted in the feedback loop of a 4-frame delay, set_volume(0 -> -20 dB over 2 s): every output frame follows the recurrence with the tween's per-frame gain, 6 callback partitions",
	"engine: track.set_send(-60 dB -> 0 dB over 1.5 s) / set_volume / child volume while the track is paused or waiting to resume for 2 s: a tween runs on elapsed time, so at the resume the value is the target",
];

impl C06 {
	fn decode(&self, idx: u64) -> (u64, StartMode, f64, Easing) {
		let sms = start_modes();
		let es = easings();
		let mut i = idx;
		let e = es[(i % es.len() as u64) as usize];
		i /= es.len() as u64;
		let d = DURS[(i % DURS.len() as u64) as usize];
		i /= DURS.len() as u64;
		let sm = sms[(i % sms.len() as u64) as usize];
		i /= sms.len() as u64;
		(i, sm, d, e)
	}
}

impl Check for C06 {
	fn id(&self) -> &'static str {
		"C06"
	}
	fn level(&self) -> Level {
		Level::ModelChecking
	}
	fn num_cases(&self, _tier: Tier) -> u64 {
		lattice_cases() + ENGINE_CASES
	}
	fn describe(&self, tier: Tier, idx: u64) -> String {
		if idx >= lattice_cases() {
			return ENGINE_NAMES[(idx - lattice_cases()) as usize].to_string();
		}
		let (t, sm, d, e) = self.decode(idx);
		format!(
			"type={} start={:?} duration={}s easing={:?}; all value pairs of a 4-lattice x all 3^{} update sequences over dt in {{0.5,1,2}} x second set() at every position{}",
			type_name(t),
			sm,
			d,
			e,
			NUPD,
			tier.pick("", " x third set() at every later position")
		)
	}
	fn sig_hint(&self, _tier: Tier, idx: u64) -> String {
		if idx >= lattice_cases() {
			return format!("engine #{}", idx - lattice_cases());
		}
		let (t, sm, d, e) = self.decode(idx);
		format!("{} {:?} dur={} {:?}", type_name(t), sm, d, e)
	}
	fn rule(&self) -> String {
		"product of 11 Tweenable types + tweener modulator x start modes (immediate, delayed 0 / 1.5 s, clock reached at update 0/1/3, clock missing, clock paused) x durations {0,0.25,1,2.5,4} x 7 easings x ordered value pairs of a 4-point lattice x every update sequence of length 6 over dt in {0.5,1,2} (729) x a second set() before every update index (different target/duration/easing); thorough adds a third set(). Model states = distinct (phase, start, target, time, remaining delay, value) of the reference; every history is replayed on the real Parameter/Tweener; plus 6 engine scenes (tweener-driven volume, sound volume tween, clock speed tween on a stopped / ticking clock, a tween towards a modulator link, listener position seen by a spatial track's effect) rendered through the AudioManager under 6 partitions of 32 frames into device callbacks (internal buffer 4): progress within one update of elapsed/duration, exactly on target afterwards".into()
	}
	fn assumptions(&self) -> Vec<String> {
		vec![
			"time steps are binary-exact so partition independence can be demanded exactly".into(),
			"Quat is compared with an f64 slerp reference within 1e-5 rad; all other types bit-exactly".into(),
			"what a clock pause in mid-tween should do is not fixed by the statement and is not demanded".into(),
		]
	}
	fn extra_evidence(&self, tier: Tier) -> Vec<(String, J)> {
		vec![
			("depth".into(), J::u(NUPD as u64)),
			("alphabet".into(), J::s("update(dt in {0.5,1,2}); set(target,tween) at any position")),
			("overlapping_sets".into(), J::u(tier.pick(2, 3))),
		]
	}
	fn run_case(&self, tier: Tier, idx: u64, ctx: &mut Ctx) {
		if idx >= lattice_cases() {
			let w = idx - lattice_cases();
			if let Err(p) = catch(|| engine_pass(w, ctx)) {
				ctx.fail(format!("panic: {} :: engine #{}", p, w), "");
			}
			return;
		}
		let (t, sm, d, e) = self.decode(idx);
		let r = catch(|| match t {
			0 => run_type::<f64>(tier, sm, d, e, ctx),
			1 => run_type::<f32>(tier, sm, d, e, ctx),
			2 => run_type::<Decibels>(tier, sm, d, e, ctx),
			3 => run_type::<Panning>(tier, sm, d, e, ctx),
			4 => run_type::<PlaybackRate>(tier, sm, d, e, ctx),
			5 => run_type::<Vec3>(tier, sm, d, e, ctx),
			6 => run_type::<Quat>(tier, sm, d, e, ctx),
			7 => run_type::<Duration>(tier, sm, d, e, ctx),
			8 => run_type::<ClockSpeed>(tier, sm, d, e, ctx),
			9 => run_type::<Mix>(tier, sm, d, e, ctx),
			10 => run_type::<Semitones>(tier, sm, d, e, ctx),
			_ => run_tweener(tier, sm, d, e, ctx),
		});
		if let Err(p) = r {
			ctx.fail(format!("panic: {} :: {}", p, type_name(t)), format!("{:?} {} {:?}", sm, d, e));
		}
	}
}

/// what the scenario's clock shows at update index `k` (0-based) for a start mode
fn clock_at(sm: StartMode, k: usize) -> Option<ClockNow> {
	match sm {
		StartMode::ClockAt(at) => Some(ClockNow {
			ticking: true,
			// (short of the time (2, 0.5) in two ways: the same tick with a smaller fraction, an earlier tick with a larger one)
			ticks: if k >= at || k % 2 == 0 { 2 } else { 1 },
			fraction: if k >= at { 0.5 } else if k % 2 == 0 { 0.25 } else { 0.75 },
		}),
		StartMode::ClockPausedUntil2 => Some(ClockNow {
			ticking: k >= 2,
			ticks: 3,
			fraction: 0.0,
		}),
		StartMode::ClockMissing => None,
		_ => Some(ClockNow {
			ticking: true,
			ticks: 0,
			fraction: 0.0,
		}),
	}
}

fn sm_of(sm: StartMode) -> SM {
	match sm {
		StartMode::Imm => SM::Imm,
		StartMode::Delayed0 => SM::Delayed(0.0),
		StartMode::Delayed15 => SM::Delayed(1.5),
		StartMode::ClockAt(_) => SM::Clock(2, 0.5),
		StartMode::ClockPausedUntil2 => SM::Clock(2, 0.5),
		StartMode::ClockMissing => SM::ClockMissing,
	}
}

/// builds the kira Info for update k and the kira StartTime for the start mode.
/// The first clock added to a fresh MockInfoBuilder always gets the same id.
fn info_for(sm: StartMode, k: usize) -> kira::info::Info<'static> {
	let mut b = MockInfoBuilder::new();
	if let Some(c) = clock_at(sm, k) {
		b.add_clock(c.ticking, c.ticks, c.fraction);
	}
	b.build()
}
fn kira_start(sm: StartMode) -> StartTime {
	let mut b = MockInfoBuilder::new();
	let id = b.add_clock(true, 0, 0.0);
	match sm {
		StartMode::Imm => StartTime::Immediate,
		StartMode::Delayed0 => StartTime::Delayed(Duration::ZERO),
		StartMode::Delayed15 => StartTime::Delayed(Duration::from_secs_f64(1.5)),
		StartMode::ClockAt(_) | StartMode::ClockPausedUntil2 | StartMode::ClockMissing => {
			StartTime::ClockTime(kira::clock::ClockTime {
				clock: id,
				ticks: 2,
				fraction: 0.5,
			})
		}
	}
}

struct SecondSet {
	at: usize,
	dur: f64,
	easing: Easing,
}

fn run_type<T: TV + Send>(tier: Tier, sm: StartMode, dur: f64, easing: Easing, ctx: &mut Ctx) {
	let lat = T::lattice();
	let seconds: Vec<Option<SecondSet>> = {
		let mut v = vec![None];
		for at in 1..NUPD {
			for (d2, e2) in [(0.0, Easing::Linear), (1.0, Easing::InPowi(2)), (2.5, Easing::Linear)] {
				v.push(Some(SecondSet { at, dur: d2, easing: e2 }));
			}
		}
		v
	};
	let nupd = tier.pick(5, NUPD);
	let nseq = 3usize.pow(nupd as u32);
	for (ia, &a) in lat.iter().enumerate() {
		for (ib, &b) in lat.iter().enumerate() {
			if ia == ib && ia > 0 {
				continue; // equal start/target once
			}
			if tier == Tier::Quick && !matches!((ia, ib), (0, 1) | (1, 0) | (2, 3) | (0, 0)) {
				continue;
			}
			let c = lat[(ib + 1) % lat.len()];
			for (isec, second) in seconds.iter().enumerate() {
				if tier == Tier::Quick && isec % 4 != 0 && isec % 4 != 2 {
					continue;
				}
				// partition independence: value as a function of total elapsed time (immediate start, no 2nd set)
				let mut by_time: std::collections::BTreeMap<u64, T> = Default::default();
				for seq in 0..nseq {
					let mut dts = [0.0; NUPD];
					let mut s = seq;
					for d in dts.iter_mut() {
						*d = DTS[s % 3];
						s /= 3;
					}
					// the third set (thorough): immediately after the second one's position + 1
					let third = if tier == Tier::Thorough {
						second.as_ref().and_then(|s2| if s2.at + 1 < NUPD { Some(s2.at + 1) } else { None })
					} else {
						None
					};
					run_history::<T>(a, b, c, sm, dur, easing, &dts, nupd, second, third, &mut by_time, ctx);
				}
			}
		}
	}
}

#[allow(clippy::too_many_arguments)]
fn run_history<T: TV + Send>(
	a: T,
	b: T,
	c: T,
	sm: StartMode,
	dur: f64,
	easing: Easing,
	dts: &[f64; NUPD],
	nupd: usize,
	second: &Option<SecondSet>,
	third: Option<usize>,
	by_time: &mut std::collections::BTreeMap<u64, T>,
	ctx: &mut Ctx,
) {
	let mut p = Parameter::new(Value::Fixed(a), a);
	let mut m = ParamModel::new(a);
	let tween = Tween {
		start_time: kira_start(sm),
		duration: Duration::from_secs_f64(dur),
		easing,
	};
	p.set(Value::Fixed(b), tween);
	m.set(b, dur, easing, sm_of(sm));
	ctx.traces += 1;
	ctx.evals += 1;
	let desc = |k: usize| {
		format!(
			"{} a={:?} b={:?} start={:?} dur={} easing={:?} dts={:?} second_set={:?} third_at={:?} at update #{}",
			T::name(),
			a,
			b,
			sm,
			dur,
			easing,
			dts,
			second.as_ref().map(|s| (s.at, s.dur, s.easing)),
			third,
			k
		)
	};
	let mut total = 0.0f64;
	let mut last_value = a;
	// bookkeeping for the laws of the *current* tween
	let mut cur_start = a;
	let mut cur_target = b;
	let mut cur_dur = dur;
	let mut cur_easing = easing;
	let mut cur_sm = sm;
	let mut cur_set_time = 0.0f64; // total time at which the current tween was set
	let mut cur_started_total: Option<f64> = None; // total time *before* the update in which it started
	let max_dt = 2.0;
	let mut last_angle = f64::INFINITY;
	for k in 0..nupd {
		if let Some(s2) = second {
			if s2.at == k {
				let tw = Tween {
					start_time: StartTime::Immediate,
					duration: Duration::from_secs_f64(s2.dur),
					easing: s2.easing,
				};
				p.set(Value::Fixed(c), tw);
				m.set(c, s2.dur, s2.easing, SM::Imm);
				cur_start = last_value;
				cur_target = c;
				cur_dur = s2.dur;
				cur_easing = s2.easing;
				cur_sm = StartMode::Imm;
				cur_set_time = total;
				cur_started_total = None;
				last_angle = f64::INFINITY;
			}
		}
		if third == Some(k) {
			let tw = Tween {
				start_time: StartTime::Delayed(Duration::from_secs_f64(0.5)),
				duration: Duration::from_secs_f64(1.0),
				easing: Easing::OutPowi(2),
			};
			p.set(Value::Fixed(a), tw);
			m.set(a, 1.0, Easing::OutPowi(2), SM::Delayed(0.5));
			cur_start = last_value;
			cur_target = a;
			cur_dur = 1.0;
			cur_easing = Easing::OutPowi(2);
			cur_sm = StartMode::Delayed15; // "some delayed mode": only used to skip exact-time laws
			cur_set_time = total;
			cur_started_total = None;
			last_angle = f64::INFINITY;
		}
		let dt = dts[k];
		let info = info_for(sm, k);
		let fin_i = p.update(dt, &info);
		let fin_m = m.update(dt, clock_at(sm, k));
		total += dt;
		ctx.transitions += 1;
		let v = p.value();
		// model state hash
		let st = match &m.state {
			PState::Idle => (0u8, 0u64, 0u64, 0u64),
			PState::Tw { time, sm, dur, .. } => (
				1u8,
				time.to_bits(),
				dur.to_bits(),
				match sm {
					SM::Imm => 0,
					SM::Delayed(r) => 1 + r.to_bits(),
					SM::Clock(..) => 2,
					SM::ClockMissing => 3,
				},
			),
		};
		ctx.state(hash64(&(T::name(), st, format!("{:?}", m.value))));

		// 1. agreement with the reference model
		let agree = T::same(v, m.value);
		if !agree {
			ctx.fail(
				format!("value differs from the reference tween :: {}", T::name()),
				format!("{} impl={:?} model={:?}", desc(k), v, m.value),
			);
			return;
		}
		if fin_i != fin_m {
			ctx.fail(
				format!("'tween just finished' flag differs from the reference :: {}", T::name()),
				format!("{} impl={} model={}", desc(k), fin_i, fin_m),
			);
			return;
		}
		// 2. continuity: this update interpolates from the previous update's final value
		let pv = p.previous_value();
		let cont = T::same(pv, last_value);
		if !cont {
			ctx.fail(
				format!("previous_value() is not the previous update's value (jump between chunks) :: {}", T::name()),
				format!("{} previous_value={:?} last={:?}", desc(k), pv, last_value),
			);
			return;
		}
		let i0 = p.interpolated_value(0.0);
		let i1 = p.interpolated_value(1.0);
		let ih = p.interpolated_value(0.5);
		if T::dist(i0, pv) > 1e-6 * T::scale(pv, v) || T::dist(i1, v) > 1e-6 * T::scale(pv, v) {
			ctx.fail(
				format!("interpolated_value(0/1) does not span previous..current value :: {}", T::name()),
				format!("{} i0={:?} i1={:?} prev={:?} cur={:?}", desc(k), i0, i1, pv, v),
			);
			return;
		}
		if !T::between(ih, pv, v) {
			ctx.fail(
				format!("interpolated_value(0.5) outside previous..current value :: {}", T::name()),
				format!("{} ih={:?} prev={:?} cur={:?}", desc(k), ih, pv, v),
			);
			return;
		}
		// 3. laws of the documented tween for the current tween
		let since_set = total - cur_set_time;
		let law_sig = |s: &str| format!("law: {} :: {}", s, T::name());
		// 3a. range (built-in easings never leave [start, target])
		if !T::between(v, cur_start, cur_target) {
			ctx.fail(law_sig("value leaves the interval between start and target"), format!("{} v={:?} start={:?} target={:?}", desc(k), v, cur_start, cur_target));
			return;
		}
		if !T::exact() {
			// Quat: the angle to the target never grows
			let ang = T::dist(v, cur_target);
			if ang > last_angle + 1e-4 {
				ctx.fail(law_sig("rotation moves away from the target"), format!("{} angle={} last={}", desc(k), ang, last_angle));
				return;
			}
			last_angle = ang;
		}
		// 3b. timing
		let changed = !T::same(v, cur_start);
		match cur_sm {
			StartMode::Imm | StartMode::Delayed0 => {
				// Delayed(0) is "now"; started in the very update after the set
				if since_set >= cur_dur {
					if !T::same(v, cur_target) {
						ctx.fail(law_sig("not exactly on target from the end of the tween on"), format!("{} v={:?} target={:?} elapsed={} dur={}", desc(k), v, cur_target, since_set, cur_dur));
						return;
					}
				} else if cur_dur > 0.0 {
					let want = T::ref_lerp(cur_start, cur_target, ref_ease(cur_easing, since_set / cur_dur));
					let ok = T::same(v, want);
					if !ok {
						ctx.fail(law_sig("does not follow start + (target-start)*ease(elapsed/duration)"), format!("{} v={:?} want={:?} elapsed={}", desc(k), v, want, since_set));
						return;
					}
				}
			}
			StartMode::Delayed15 => {
				let delay = if third.map(|t| t <= k).unwrap_or(false) { 0.5 } else { 1.5 };
				if since_set <= delay && changed && !T::same(cur_start, cur_target) {
					ctx.fail(law_sig("value changes before the tween's start time"), format!("{} v={:?} old={:?} elapsed={}", desc(k), v, cur_start, since_set));
					return;
				}
				if since_set >= delay + cur_dur + max_dt && !T::same(v, cur_target) {
					ctx.fail(law_sig("not on target one update after delay + duration"), format!("{} v={:?} target={:?} elapsed={}", desc(k), v, cur_target, since_set));
					return;
				}
			}
			StartMode::ClockAt(_) | StartMode::ClockPausedUntil2 => {
				let reached = clock_at(sm, k).map(|c| c.ticking && (c.ticks, c.fraction) >= (2, 0.5)).unwrap_or(false);
				if !reached && cur_started_total.is_none() && changed && !T::same(cur_start, cur_target) {
					ctx.fail(law_sig("value changes before the clock reaches the tween's start time"), format!("{} v={:?} old={:?}", desc(k), v, cur_start));
					return;
				}
				if reached && cur_started_total.is_none() {
					cur_started_total = Some(total - dt);
				}
				if let Some(t0) = cur_started_total {
					let el = total - t0;
					if el >= cur_dur && !T::same(v, cur_target) {
						ctx.fail(law_sig("not exactly on target after a clock-started tween ended"), format!("{} v={:?} target={:?} elapsed={}", desc(k), v, cur_target, el));
						return;
					}
				}
			}
			StartMode::ClockMissing => {
				if changed && !T::same(cur_start, cur_target) {
					ctx.fail(law_sig("value changes although the tween's clock does not exist"), format!("{} v={:?} old={:?}", desc(k), v, cur_start));
					return;
				}
			}
		}
		// 4. partition independence (immediate start, single tween): value is a function of elapsed time
		if second.is_none() && matches!(sm, StartMode::Imm) {
			let key = total.to_bits();
			if let Some(prev) = by_time.get(&key) {
				let same = T::same(*prev, v);
				if !same {
					ctx.fail(law_sig("value depends on how time was partitioned into updates"), format!("{} v={:?} other partition gave {:?} at t={}", desc(k), v, prev, total));
					return;
				}
			} else {
				by_time.insert(key, v);
			}
		}
		if v != a {
			ctx.nontrivial(hash64(&(T::name(), format!("{:?}", v))));
		}
		last_value = v;
	}
	ctx.outcome(hash64(&format!("{:?}", last_value)) % 64);
}

/// the tweener modulator duplicates the tween logic: same enumeration for T = f64 through
/// `TweenerBuilder::build` + handle + `Modulator` trait
fn run_tweener(tier: Tier, sm: StartMode, dur: f64, easing: Easing, ctx: &mut Ctx) {
	let lat = <f64 as TV>::lattice();
	let nupd = tier.pick(5, NUPD);
	let nseq = 3usize.pow(nupd as u32);
	for (ia, &a) in lat.iter().enumerate() {
		for (ib, &b) in lat.iter().enumerate() {
			if ia == ib && ia > 0 {
				continue;
			}
			let c = lat[(ib + 1) % lat.len()];
			if tier == Tier::Quick && !matches!((ia, ib), (0, 1) | (1, 0) | (2, 3) | (0, 0)) {
				continue;
			}
			for second_at in 0..nupd {
				// second_at == 0 means "no second set"
				for seq in 0..nseq {
					let mut dts = [0.0; NUPD];
					let mut s = seq;
					for d in dts.iter_mut() {
						*d = DTS[s % 3];
						s /= 3;
					}
					let mut ib_ = MockInfoBuilder::new();
					let id = ib_.add_modulator(0.0);
					let (mut modu, mut handle) = TweenerBuilder { initial_value: a }.build(id);
					let mut m = ParamModel::new(a);
					handle.set(
						b,
						Tween {
							start_time: kira_start(sm),
							duration: Duration::from_secs_f64(dur),
							easing,
						},
					);
					m.set(b, dur, easing, sm_of(sm));
					ctx.traces += 1;
					ctx.evals += 1;
					let mut total = 0.0;
					for k in 0..nupd {
						if second_at > 0 && second_at == k {
							handle.set(
								c,
								Tween {
									start_time: StartTime::Immediate,
									duration: Duration::from_secs_f64(1.0),
									easing: Easing::InPowi(2),
								},
							);
							m.set(c, 1.0, Easing::InPowi(2), SM::Imm);
						}
						modu.on_start_processing();
						let info = info_for(sm, k);
						modu.update(dts[k], &info);
						m.update(dts[k], clock_at(sm, k));
						total += dts[k];
						ctx.transitions += 1;
						let v = modu.value();
						ctx.state(hash64(&("tweener", v.to_bits(), total.to_bits())));
						if v != m.value {
							ctx.fail(
								"value differs from the reference tween :: tweener-modulator",
								format!(
									"a={} b={} start={:?} dur={} easing={:?} dts={:?} second_at={} update #{} impl={} model={}",
									a, b, sm, dur, easing, dts, second_at, k, v, m.value
								),
							);
							break;
						}
						if second_at == 0 && matches!(sm, StartMode::Imm | StartMode::Delayed0) && total >= dur && v != b {
							ctx.fail(
								"law: not exactly on target from the end of the tween on :: tweener-modulator",
								format!("a={} b={} dur={} dts={:?} update #{} v={}", a, b, dur, dts, k, v),
							);
							break;
						}
						if !btw(v, a.min(b).min(c), a.max(b).max(c)) {
							ctx.fail(
								"law: value leaves the interval between start and target :: tweener-modulator",
								format!("a={} b={} c={} v={}", a, b, c, v),
							);
							break;
						}
						if v != a {
							ctx.nontrivial(hash64(&("tweener", v.to_bits())));
						}
					}
				}
			}
		}
	}
	ctx.outcome(1000);
}

// ---------------------------------------------------------------------------------------------
// engine pass: the same laws observed through AudioManager + Renderer with device callbacks whose
// sizes are not multiples of the internal buffer size

const PARTS: [&[usize]; 6] = [&[4; 8], &[1; 32], &[6, 6, 6, 6, 6, 2], &[3, 5, 7, 9, 8], &[32], &[2; 16]];

fn engine_pass(which: u64, ctx: &mut Ctx) {
	use crate::rig;
	use kira::sound::Region;
	use kira::track::MainTrackBuilder;
	use kira::Mapping;
	const SR: u32 = 8;
	const IBS: usize = 4;
	let tw2 = Tween { start_time: StartTime::Immediate, duration: Duration::from_secs(2), easing: Easing::Linear };
	for parts in PARTS {
		ctx.evals += 1;
		ctx.traces += 1;
		let desc = || format!("{}; callbacks of {:?} frames at {} Hz, internal buffer {}", ENGINE_NAMES[which as usize], parts, SR, IBS);
		let mut m = rig::manager(SR, IBS, rig::caps(2), MainTrackBuilder::new());
		match which {
			0 | 1 => {
				let data = rig::static_data(SR, rig::dc_frames(4, 0.5)).loop_region(Region::from(..));
				let mut tweener = None;
				let mut h = if which == 0 {
					let t = m.add_modulator(TweenerBuilder { initial_value: 0.0 }).expect("tweener");
					let vol: Value<Decibels> = Value::FromModulator {
						id: t.id(),
						mapping: Mapping { input_range: (0.0, 1.0), output_range: (Decibels(-20.0), Decibels(0.0)), easing: Easing::Linear },
					};
					let h = m.play(data.volume(vol)).expect("play");
					tweener = Some(t);
					h
				} else {
					m.play(data.volume(-20.0)).expect("play")
				};
				// one aligned callback so that everything is adopted and the initial value is in force
				let mut sink = vec![];
				rig::render_stereo(&mut m, IBS, &mut sink);
				if let Some(t) = tweener.as_mut() {
					t.set(1.0, tw2);
				} else {
					h.set_volume(0.0, tw2);
				}
				let mut out: Vec<(f32, f32)> = vec![];
				for &n in parts.iter() {
					rig::render_stereo(&mut m, n, &mut out);
					ctx.transitions += 1;
				}
				// progress v(f) in [0,1] recovered from the gain of frame f (gain dB = -20 + 20 v)
				let dur_frames = 2.0 * SR as f64;
				for (f, (l, _)) in out.iter().enumerate() {
					let g = (*l as f64 / 0.5).max(1e-9);
					let v = (20.0 * g.log10() + 20.0) / 20.0;
					// elapsed time at the end of frame f is (f+1)/SR; allowed: one update (internal buffer) either way,
					// plus one more buffer for the modulator -> parameter hand-over
					let slack = if which == 0 { 2 * IBS } else { IBS } as f64;
					let lo = ((f as f64 + 1.0 - slack) / dur_frames).clamp(0.0, 1.0) - 1e-4;
					let hi = ((f as f64 + 1.0 + slack) / dur_frames).clamp(0.0, 1.0) + 1e-4;
					if v < lo || v > hi {
						ctx.fail(
							format!("a tween's progress differs from elapsed/duration by more than one update when rendered through the engine :: engine #{}", which),
							format!("{}; frame {}: progress {:.4} allowed [{:.4}, {:.4}]; gains {:?}", desc(), f, v, lo, hi, out.iter().map(|x| x.0).collect::<Vec<_>>()),
						);
						break;
					}
					if (f as f64) >= dur_frames + slack && *l != 0.5 {
						ctx.fail(format!("not exactly on target after the end of the tween :: engine #{}", which), format!("{}; frame {} = {}", desc(), f, l));
						break;
					}
					ctx.state(hash64(&(which, f, l.to_bits())));
				}
				ctx.nontrivial_extra += 1;
				ctx.outcome(hash64(&(which, out.last().map(|x| x.0.to_bits()))));
			}
			4 => {
				// a tween whose target is a modulator link: from its end on the parameter equals the (moving) target
				let mut tw_h = m.add_modulator(TweenerBuilder { initial_value: 0.0 }).expect("tweener");
				let data = rig::static_data(SR, rig::dc_frames(4, 0.5)).loop_region(Region::from(..));
				let mut h = m.play(data.volume(-20.0)).expect("play");
				let mut sink = vec![];
				rig::render_stereo(&mut m, IBS, &mut sink);
				let link: Value<Decibels> = Value::FromModulator {
					id: tw_h.id(),
					mapping: Mapping { input_range: (0.0, 1.0), output_range: (Decibels(-20.0), Decibels(0.0)), easing: Easing::Linear },
				};
				h.set_volume(link, Tween { start_time: StartTime::Immediate, duration: Duration::from_secs(1), easing: Easing::Linear });
				let mut out: Vec<(f32, f32)> = vec![];
				let mut k = 0;
				// 2 s: the 1 s tween (towards mapping(0) = -20 dB: no audible change) is over
				while out.len() < 2 * SR as usize {
					rig::render_stereo(&mut m, parts[k % parts.len()].min(2 * SR as usize - out.len()), &mut out);
					k += 1;
					ctx.transitions += 1;
				}
				tw_h.set(1.0, Tween { start_time: StartTime::Immediate, duration: Duration::ZERO, easing: Easing::Linear });
				let mut tail: Vec<(f32, f32)> = vec![];
				for _ in 0..4 {
					rig::render_stereo(&mut m, IBS, &mut tail);
				}
				let last = tail.last().map(|f| f.0).unwrap_or(0.0);
				if (last - 0.5).abs() > 1e-6 {
					ctx.fail(
						"after a tween to a modulator-linked target has ended the parameter no longer follows the modulator :: engine #4",
						format!("{}; after tweener.set(1.0, instant) and 4 more buffers the gain is {} (expected 0.5 = mapping(1) = 0 dB); {:?}", desc(), last, tail.iter().map(|f| f.0).collect::<Vec<_>>()),
					);
				}
				ctx.nontrivial_extra += 1;
				ctx.state(hash64(&(which, last.to_bits())));
				ctx.outcome(hash64(&(which, last.to_bits())));
			}
			5 => {
				// continuity of a vector-valued parameter across chunks, observed where it is consumed
				use kira::track::SpatialTrackBuilder;
				use std::sync::{Arc, Mutex};
				type Log = Arc<Mutex<Vec<([f32; 3], [f32; 3])>>>;
				struct Probe(Log);
				struct ProbeB(Log);
				impl kira::effect::EffectBuilder for ProbeB {
					type Handle = ();
					fn build(self) -> (Box<dyn kira::effect::Effect>, ()) {
						(Box::new(Probe(self.0)), ())
					}
				}
				impl kira::effect::Effect for Probe {
					fn process(&mut self, _input: &mut [kira::Frame], _dt: f64, info: &kira::info::Info) {
						if let Some(l) = info.listener_info() {
							let a = l.interpolated_position(0.0);
							let b = l.interpolated_position(1.0);
							if let Ok(mut g) = self.0.try_lock() {
								if g.len() < g.capacity() {
									g.push(([a.x, a.y, a.z], [b.x, b.y, b.z]));
								}
							}
						}
					}
				}
				let log: Log = Arc::new(Mutex::new(Vec::with_capacity(256)));
				let mut l = m.add_listener(glam::Vec3::ZERO, glam::Quat::IDENTITY).expect("listener");
				let mut t = m.add_spatial_sub_track(&l, glam::Vec3::new(0.0, 0.0, -1.0), SpatialTrackBuilder::new().with_effect(ProbeB(log.clone()))).expect("spatial track");
				let _s = t.play(rig::static_data(SR, rig::dc_frames(4, 0.5)).loop_region(Region::from(..))).expect("play");
				let mut sink = vec![];
				rig::render_stereo(&mut m, IBS, &mut sink);
				log.lock().unwrap().clear();
				l.set_position(glam::Vec3::new(8.0, 0.0, 16.0), tw2);
				for &n in parts.iter() {
					rig::render_stereo(&mut m, n, &mut sink);
					ctx.transitions += 1;
				}
				let g = log.lock().unwrap().clone();
				let mut bad = None;
				for w in g.windows(2) {
					let (prev_end, cur_start) = (w[0].1, w[1].0);
					if (0..3).any(|i| (prev_end[i] - cur_start[i]).abs() > 1e-5) {
						bad = Some(format!("a chunk ends at {:?}, the next one starts at {:?}", prev_end, cur_start));
						break;
					}
				}
				// and it moves: within the 2 s of the tween consecutive chunk ends differ
				let moving = g.iter().take(3).any(|c| c.0 != c.1);
				if bad.is_none() && !moving {
					bad = Some(format!("the position does not move inside the first chunks of the tween: {:?}", &g[..g.len().min(4)]));
				}
				if let Some(b) = bad {
					ctx.fail("a tweened listener position is not continuous across chunks where it is consumed (each chunk must start from the previous chunk's final value) :: engine #5", format!("{}; {}", desc(), b));
				}
				ctx.nontrivial_extra += 1;
				ctx.state(hash64(&(which, g.len())));
				ctx.outcome(hash64(&(which, g.len())));
			}
			6 => {
				use kira::track::SpatialTrackBuilder;
				let l = m.add_listener(glam::Vec3::ZERO, glam::Quat::IDENTITY).expect("listener");
				let mut t = m
					.add_spatial_sub_track(&l, glam::Vec3::new(1.0, 0.0, 0.0), SpatialTrackBuilder::new().distances((1.0, 17.0)).attenuation_function(Some(Easing::Linear)).spatialization_strength(0.0))
					.expect("spatial track");
				let _s = t.play(rig::static_data(SR, rig::dc_frames(4, 0.5)).loop_region(Region::from(..))).expect("play");
				let mut sink = vec![];
				rig::render_stereo(&mut m, IBS, &mut sink);
				t.set_position(glam::Vec3::new(17.0, 0.0, 0.0), tw2);
				let mut out: Vec<(f32, f32)> = vec![];
				for &n in parts.iter() {
					rig::render_stereo(&mut m, n, &mut out);
					ctx.transitions += 1;
				}
				// the spatial stage samples the positions at the START of each frame (i / n inside a chunk): frame f is f / 16 of the
				// way; the last chunk of the tween may bend (one update of timing), the rest is exact
				let level = |frac: f64| if frac >= 1.0 { 0.0 } else { 0.5 * 10f64.powf(-3.0 * frac) };
				let mut bad = None;
				for (f, o) in out.iter().enumerate() {
					let exact = f < 11 || f >= 20;
					let want = level(f as f64 / 16.0);
					let ok = if exact { (o.0 as f64 - want).abs() <= 2e-5 } else { (o.0 as f64) <= level(10.0 / 16.0) + 2e-5 && (o.0 as f64) >= -2e-5 };
					if !ok {
						bad = Some(format!("frame {} after the command: level {}, expected {} (distance {})", f, o.0, want, 1.0 + 16.0 * (f as f64 / 16.0).min(1.0)));
						break;
					}
				}
				if let Some(b) = bad {
					ctx.fail("a tweened emitter position does not follow start + (target - start) x elapsed / duration where it is consumed (the spatial track's attenuation) :: engine #6", format!("{}; {}; left channel {:?}", desc(), b, out.iter().map(|f| f.0).collect::<Vec<_>>()));
				}
				ctx.nontrivial_extra += 1;
				ctx.state(hash64(&(which, out.len())));
				ctx.outcome(hash64(&(which, out.len())));
			}
			7 => {
				use crate::pacer;
				use crate::probes::ScriptedDecoder;
				pacer::set_mode(pacer::Mode::Pacer);
				let first = pacer::count();
				let (dec, stats) = ScriptedDecoder::new(rig::dc_frames(4096, 0.5), SR, vec![3, 1, 2], 1);
				let mut h = m.play(kira::sound::streaming::StreamingSoundData::from_decoder(dec)).map_err(|_| ()).expect("play");
				let mut sink = vec![];
				pacer::step(first, 8);
				rig::render_stereo(&mut m, IBS, &mut sink);
				let heard_before = sink.iter().any(|f| f.0 != 0.0);
				h.set_volume(-20.0, Tween { start_time: StartTime::Immediate, duration: Duration::from_secs(1), easing: Easing::Linear });
				// the decoder delivers nothing: after the 4 buffered frames the sound waits for data for the rest of 4 s
				let mut starved: Vec<(f32, f32)> = vec![];
				for &n in parts.iter() {
					rig::render_stereo(&mut m, n, &mut starved);
					ctx.transitions += 1;
				}
				// audio comes back
				let mut out: Vec<(f32, f32)> = vec![];
				for _ in 0..3 {
					pacer::step(first, 16);
					rig::render_stereo(&mut m, IBS, &mut out);
				}
				let want = 0.5 * 10f32.powf(-1.0);
				let first_heard = out.iter().position(|f| f.0 != 0.0);
				let silent_tail = starved.iter().rev().take(8).all(|f| f.0 == 0.0);
				let mut bad = None;
				if !heard_before || !silent_tail || first_heard.is_none() {
					bad = Some(format!("machinery: the scene did not starve / resume as arranged (heard before {}, silent while starved {}, heard again {:?})", heard_before, silent_tail, first_heard));
				} else if let Some(i) = out.iter().skip(first_heard.unwrap()).position(|f| (f.0 - want).abs() > 1e-6) {
					bad = Some(format!("frame {} after audio came back: level {}, expected the tween's target level {} (the tween ended 3 s earlier)", i, out[first_heard.unwrap() + i].0, want));
				}
				if let Some(b) = bad {
					ctx.fail("from the end of the tween onward the value is not the target: time spent waiting for the decoder was not counted :: engine #7", format!("{}; {}; left channel after the starvation {:?}", desc(), b, out.iter().map(|f| f.0).collect::<Vec<_>>()));
				}
				h.stop(Tween { duration: Duration::ZERO, ..Default::default() });
				rig::render_stereo(&mut m, 1, &mut sink);
				drop(m);
				crate::probes::reap_decoder(first, &stats);
				ctx.nontrivial_extra += 1;
				ctx.state(hash64(&(which, out.len())));
				ctx.outcome(hash64(&(which, out.len())));
				continue;
			}
			9 => {
				use kira::effect::delay::DelayBuilder;
				use kira::effect::volume_control::VolumeControlBuilder;
				use kira::track::TrackBuilder;
				let mut db = DelayBuilder::new().delay_time(Duration::from_secs_f64(4.0 / SR as f64)).feedback(Decibels(-6.0206)).mix(kira::Mix::WET);
				let mut vh = db.add_feedback_effect(VolumeControlBuilder::new(Decibels(0.0)));
				let mut t = m.add_sub_track(TrackBuilder::new().with_effect(db)).expect("track");
				let _s = t.play(rig::static_data(SR, rig::dc_frames(4, 0.5)).loop_region(Region::from(..))).expect("play");
				// settle: wet = fb (in + wet) -> in x fb / (1 - fb)
				let mut sink = vec![];
				for _ in 0..16 {
					rig::render_stereo(&mut m, IBS, &mut sink);
				}
				let fb = 10f64.powf(-6.0206 / 20.0);
				let settled = sink[sink.len() - 1].0 as f64;
				vh.set_volume(-20.0, tw2);
				let mut out: Vec<(f32, f32)> = vec![];
				for &n in parts.iter() {
					rig::render_stereo(&mut m, n, &mut out);
					ctx.transitions += 1;
				}
				// frame t after the command: g(t) = 10^(-20 min((t+1)/16, 1) / 20) (a linear tween interpolated linearly inside every call)
				let g = |t: usize| 10f64.powf(-20.0 * ((t + 1) as f64 / 16.0).min(1.0) / 20.0);
				let mut wet: Vec<f64> = vec![];
				let mut bad = None;
				for (t, o) in out.iter().enumerate() {
					let prev = if t >= 4 { wet[t - 4] } else { settled };
					let w = g(t) * fb * (0.5 + prev);
					wet.push(w);
					// the chunk in which the tween ends may bend (one update of timing); partitions whose calls are longer than the
					// delay line are worked off in passes of 4 frames - the same frames either way
					// (what the bent chunk put into the delay line comes round once more, 4 frames later, 26 dB down)
					let exact = t < 12 || t >= 24;
					if exact && (o.0 as f64 - w).abs() > 2e-5 && bad.is_none() {
						bad = Some(format!("frame {} after the command: {} expected {} (gain of the hosted volume control {:.4})", t, o.0, w, g(t)));
					}
				}
				if (settled - 0.5 * fb / (1.0 - fb)).abs() > 1e-4 {
					bad = Some(format!("machinery: the loop did not settle at in x fb / (1 - fb): {}", settled));
				}
				if let Some(b) = bad {
					ctx.fail("a tween on an effect hosted in a delay's feedback loop does not follow start + (target - start) x elapsed / duration :: engine #9", format!("{}; {}; left channel {:?}", desc(), b, out.iter().map(|f| f.0).collect::<Vec<_>>()));
				}
				ctx.nontrivial_extra += 1;
				ctx.state(hash64(&(which, out.len())));
				ctx.outcome(hash64(&(which, out.len())));
			}
			10 => {
				use kira::track::{SendTrackBuilder, TrackBuilder};
				// a tween of something owned by a track that is not playing meanwhile: time passes all the same
				for (what, waiting) in [(0usize, false), (0, true), (1, false), (1, true), (2, false)] {
					let mut m = rig::manager(SR, IBS, rig::caps(2), MainTrackBuilder::new());
					let send = m.add_send_track(SendTrackBuilder::new()).expect("send");
					let mut t = m.add_sub_track(TrackBuilder::new().with_send(&send, Decibels::SILENCE)).expect("track");
					let mut h = t.play(rig::static_data(SR, rig::dc_frames(4, 0.25)).loop_region(Region::from(..))).expect("play");
					let mut sink = vec![];
					rig::render_stereo(&mut m, IBS, &mut sink);
					let instant = Tween { start_time: StartTime::Immediate, duration: Duration::ZERO, easing: Easing::Linear };
					let one_s = Tween { start_time: StartTime::Immediate, duration: Duration::from_secs_f64(1.5), easing: Easing::Linear };
					t.pause(instant);
					if waiting {
						t.resume_at(StartTime::Delayed(Duration::from_secs_f64(2.5)), instant);
					}
					rig::render_stereo(&mut m, IBS, &mut sink);
					match what {
						0 => t.set_send(&send, Decibels::IDENTITY, one_s).expect("route"),
						1 => t.set_volume(Decibels(-20.0), one_s),
						_ => h.set_volume(Decibels(-20.0), one_s),
					}
					// 2 s = 16 frames = 4 chunks while the track stands still
					for _ in 0..4 {
						rig::render_stereo(&mut m, IBS, &mut sink);
						ctx.transitions += 1;
					}
					if !waiting {
						t.resume(instant);
					}
					let mut out: Vec<(f32, f32)> = vec![];
					for _ in 0..4 {
						rig::render_stereo(&mut m, IBS, &mut out);
						ctx.transitions += 1;
					}
					// (the chunk of the resume interpolates the fade; from its last frame on the level is plain)
					let want = match what {
						0 => 0.25 + 0.25,
						1 => 0.25 * 10f64.powf(-1.0),
						// a sound on a paused track does not advance: its own tween may wait with it (both readings are accepted)
						_ => 0.25 * 10f64.powf(-1.0),
					};
					if std::env::var("KVH_DEBUG_C06").is_ok() {
						eprintln!("E10 what={} waiting={} sink={:?} out={:?}", what, waiting, sink.iter().map(|f| f.0).collect::<Vec<_>>(), out.iter().map(|f| f.0).collect::<Vec<_>>());
					}
					let tail = &out[IBS - 1..];
					let heard_before = sink[..IBS].iter().any(|f| f.0 != 0.0);
					let silent_meanwhile = sink[2 * IBS..].iter().all(|f| f.0 == 0.0);
					if !heard_before || !silent_meanwhile {
						ctx.fail("machinery: the scene did not play / pause as arranged :: engine #10", format!("{}; what {} waiting {}: {:?}", desc(), what, waiting, sink));
					} else if what < 2 {
						if let Some((i, f)) = tail.iter().enumerate().find(|(_, f)| (f.0 as f64 - want).abs() > 1e-5) {
							ctx.fail(
								"a tween of a track's send level / volume that ran out while the track was paused is not at its target when the track plays again (time spent paused was not counted) :: engine #10".to_string(),
								format!("{}; track with a sound (DC 0.25) and a send route at -60 dB; track paused{}; one callback; {}; 4 callbacks of {} frames (2 s); {}: frame {} after that = {} (main output = track + send), expected {}; output {:?}", desc(), if waiting { " and resume_at(Delayed 2.5 s, instant)" } else { "" }, ["set_send(0 dB, 1.5 s)", "set_volume(-20 dB, 1.5 s)"][what], IBS, if waiting { "the start time arrives" } else { "resume(instant)" }, IBS - 1 + i, f.0, want, out.iter().map(|f| f.0).collect::<Vec<_>>()),
							);
						}
					} else {
						// the child's tween: frozen with the track (starts from 0.25) or elapsed (at target) - never beyond, never louder
						if let Some((i, f)) = out.iter().enumerate().find(|(_, f)| f.0 as f64 > 0.25 + 1e-6) {
							ctx.fail("a sound's volume tween on a paused track overshoots :: engine #10", format!("{}; frame {} = {}", desc(), i, f.0));
						}
					}
					ctx.nontrivial_extra += 1;
					ctx.state(hash64(&(which, what, waiting)));
				}
				ctx.outcome(hash64(&(which, 0)));
				break;
			}
			8 => {
				use kira::track::TrackBuilder;
				// the fade-in of a DEFERRED resume is the tween that was given: easing and duration
				for (host_is_track, easing) in [(false, Easing::OutPowi(2)), (false, Easing::InPowi(3)), (true, Easing::OutPowi(2)), (true, Easing::InOutPowi(2))] {
					let mut m = rig::manager(SR, IBS, rig::caps(2), MainTrackBuilder::new());
					let mut t = m.add_sub_track(TrackBuilder::new()).expect("track");
					let mut h = t.play(rig::static_data(SR, rig::dc_frames(4, 0.5)).loop_region(Region::from(..))).expect("play");
					let mut sink = vec![];
					rig::render_stereo(&mut m, IBS, &mut sink);
					let instant = Tween { start_time: StartTime::Immediate, duration: Duration::ZERO, easing: Easing::Linear };
					let fade = Tween { start_time: StartTime::Immediate, duration: Duration::from_secs(2), easing };
					if host_is_track {
						t.pause(instant);
					} else {
						h.pause(instant);
					}
					rig::render_stereo(&mut m, IBS, &mut sink);
					if host_is_track {
						t.resume_at(StartTime::Delayed(Duration::from_secs(1)), fade);
					} else {
						h.resume_at(StartTime::Delayed(Duration::from_secs(1)), fade);
					}
					// aligned callbacks: 1 s delay = 8 frames = 2 chunks, fade 16 frames = 4 chunks
					let mut out: Vec<(f32, f32)> = vec![];
					for _ in 0..8 {
						rig::render_stereo(&mut m, IBS, &mut out);
						ctx.transitions += 1;
					}
					// the fade volume at the end of the k-th chunk of the fade is -60 dB x (1 - ease(k / 4)); the delay is counted
					// in whole chunks, so the fade starts with the chunk in which the delay runs out or the one after it
					let level = |k: usize| -> f64 {
						let x = (k as f64 / 4.0).min(1.0);
						let e = ref_ease(easing, x);
						let db = -60.0 * (1.0 - e);
						if db <= -60.0 { 0.0 } else { 0.5 * 10f64.powf(db / 20.0) }
					};
					let ends: Vec<f64> = (0..8).map(|c| out[c * IBS + IBS - 1].0 as f64).collect();
					let fits = |first: usize| (0..8).all(|c| {
						let want = if c < first { 0.0 } else { level(c - first + 1) };
						(ends[c] - want).abs() <= 1e-5 + 1e-4 * want
					});
					if !(fits(1) || fits(2) || fits(3)) {
						ctx.fail(
							"the fade-in of a deferred resume (resume_at with a later start time) does not follow the easing of the tween it was given :: engine #8".to_string(),
							format!("{}; {} paused, resume_at(Delayed(1 s), Tween {{ 2 s, {:?} }}): level at the end of each 4-frame chunk {:?}; expected 0 until the delay has run out, then 0.5 x 10^(-3 (1 - ease(k/4))) for k = 1..4: {:?}", desc(), if host_is_track { "track" } else { "sound" }, easing, ends, (1..=4).map(level).collect::<Vec<_>>()),
						);
					}
					ctx.nontrivial_extra += 1;
					ctx.state(hash64(&(which, host_is_track, format!("{:?}", easing))));
				}
				ctx.outcome(hash64(&(which, 0)));
				break;
			}
			_ => {
				let mut c = m.add_clock(ClockSpeed::TicksPerSecond(1.0)).expect("clock");
				let mut sink = vec![];
				rig::render_stereo(&mut m, IBS, &mut sink);
				if which == 3 {
					c.start();
				}
				c.set_speed(ClockSpeed::TicksPerSecond(4.0), tw2);
				// 3 s = 24 frames in the partition's callback sizes (cycled), then (stopped variant) start, then 1 s
				let mut left = 24usize;
				let mut i = 0;
				while left > 0 {
					let n = parts[i % parts.len()].min(left);
					rig::render_stereo(&mut m, n, &mut sink);
					left -= n;
					i += 1;
					ctx.transitions += 1;
				}
				// an aligned callback publishes the clock time as of the end of the 3 s phase
				rig::render_stereo(&mut m, IBS, &mut sink);
				let before = {
					let t = c.time();
					t.ticks as f64 + t.fraction
				};
				if which == 2 {
					c.start();
				}
				let mut left = 8usize;
				while left > 0 {
					let n = parts[i % parts.len()].min(left);
					rig::render_stereo(&mut m, n, &mut sink);
					left -= n;
					i += 1;
				}
				rig::render_stereo(&mut m, IBS, &mut sink);
				let after = {
					let t = c.time();
					t.ticks as f64 + t.fraction
				};
				// the speed tween ended at least 1 s before the measured window began, so the speed is exactly 4 ticks/s:
				// stopped variant: the clock ticks during the 8 frames that follow start(); ticking variant: during the
				// aligned callback as well
				let gained = after - before;
				let want = if which == 2 { 4.0 } else { 4.0 * (8 + IBS) as f64 / SR as f64 };
				let tol = 1e-6;
				if (gained - want).abs() > tol {
					ctx.fail(
						format!("a clock-speed tween does not progress with elapsed time (the clock runs at the wrong speed after the tween's end) :: engine #{}", which),
						format!("{}; clock time {} -> {} over the window that follows a finished 2 s speed tween to 4 ticks/s (expected a gain of {} +- {})", desc(), before, after, want, tol),
					);
				}
				ctx.nontrivial_extra += 1;
				ctx.state(hash64(&(which, after.to_bits())));
				ctx.outcome(hash64(&(which, (gained * 8.0) as i64)));
			}
		}
	}
}
