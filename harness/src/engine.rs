//! The exploration engine shared by every check: case enumeration sharded over worker
//! sub-processes, watchdog (hang => verdict, not a stuck run), failure signatures,
//! known-findings protocol, replay files and evidence files.

use crate::json::{self, J};
use std::collections::{BTreeMap, BTreeSet, HashSet};
use std::io::{Read, Write};
use std::sync::atomic::{AtomicU64, Ordering};
use std::time::{Duration, Instant};

pub const VERIF_DIR: &str = "/verif";

#[derive(Debug, Clone, Copy, PartialEq, Eq)]
pub enum Tier {
	Quick,
	Thorough,
}
impl Tier {
	pub fn name(self) -> &'static str {
		match self {
			Tier::Quick => "quick",
			Tier::Thorough => "thorough",
		}
	}
	pub fn parse(s: &str) -> Option<Tier> {
		match s {
			"quick" => Some(Tier::Quick),
			"thorough" => Some(Tier::Thorough),
			_ => None,
		}
	}
	pub fn pick<T>(self, q: T, t: T) -> T {
		match self {
			Tier::Quick => q,
			Tier::Thorough => t,
		}
	}
}

#[derive(Debug, Clone, Copy, PartialEq, Eq)]
pub enum Level {
	Exploration,
	FaultEnumeration,
	ModelChecking,
}
impl Level {
	pub fn name(self) -> &'static str {
		match self {
			Level::Exploration => "exploration",
			Level::FaultEnumeration => "fault_enumeration",
			Level::ModelChecking => "model_checking",
		}
	}
}

#[derive(Debug, Clone)]
pub struct Failure {
	pub sig: String,
	pub case: u64,
	pub detail: String,
}

/// Per-worker accumulator of measured coverage and failures.
#[derive(Default)]
pub struct Ctx {
	pub evals: u64,
	pub nontrivial: HashSet<u64>,
	/// non-trivial cases that are distinct by construction (enumeration without repetition); added to nontrivial.len()
	pub nontrivial_extra: u64,
	pub states: HashSet<u64>,
	pub transitions: u64,
	pub traces: u64,
	pub schedules: u64,
	pub outcomes: HashSet<u64>,
	pub counters: BTreeMap<String, u64>,
	pub failures: Vec<Failure>,
	pub fail_counts: BTreeMap<String, u64>,
	pub samples: Vec<(u64, String)>,
	pub cur_case: u64,
	pub verbose: bool,
}

const MAX_STORED_PER_SIG: u64 = 3;

impl Ctx {
	pub fn fail(&mut self, sig: impl Into<String>, detail: impl Into<String>) {
		let sig = sig.into();
		let n = self.fail_counts.entry(sig.clone()).or_insert(0);
		*n += 1;
		if *n <= MAX_STORED_PER_SIG {
			let detail = detail.into();
			if self.verbose {
				println!("FAIL sig={} detail={}", sig, detail);
			}
			self.failures.push(Failure {
				sig,
				case: self.cur_case,
				detail,
			});
		}
	}
	pub fn count(&mut self, name: &str, n: u64) {
		*self.counters.entry(name.to_string()).or_insert(0) += n;
	}
	pub fn state(&mut self, h: u64) {
		self.states.insert(h);
	}
	pub fn outcome(&mut self, h: u64) {
		self.outcomes.insert(h);
	}
	pub fn nontrivial(&mut self, h: u64) {
		self.nontrivial.insert(h);
	}
	/// keep a few written-out cases (first, and a sparse selection)
	pub fn sample(&mut self, ord: u64, text: impl FnOnce() -> String) {
		if self.samples.len() < 2 || (ord.is_power_of_two() && self.samples.len() < 12) {
			self.samples.push((ord, text()));
		}
	}
	/// merge a scratch accumulator (used when a case is judged against more than one admissible reference)
	pub fn absorb(&mut self, o: Ctx) {
		self.evals += o.evals;
		self.nontrivial.extend(o.nontrivial);
		self.nontrivial_extra += o.nontrivial_extra;
		self.states.extend(o.states);
		self.transitions += o.transitions;
		self.traces += o.traces;
		self.schedules += o.schedules;
		self.outcomes.extend(o.outcomes);
		for (k, v) in o.counters {
			*self.counters.entry(k).or_insert(0) += v;
		}
		for (sig, n) in o.fail_counts {
			*self.fail_counts.entry(sig).or_insert(0) += n;
		}
		for f in o.failures {
			let stored = self.failures.iter().filter(|g| g.sig == f.sig).count() as u64;
			if stored < MAX_STORED_PER_SIG {
				self.failures.push(Failure { sig: f.sig, case: self.cur_case, detail: f.detail });
			}
		}
		for smp in o.samples {
			if self.samples.len() < 12 {
				self.samples.push(smp);
			}
		}
	}
	pub fn total_failures(&self) -> u64 {
		self.fail_counts.values().sum()
	}
}

pub fn hash64<T: std::hash::Hash>(t: &T) -> u64 {
	// FNV-1a over the std hasher's byte feed would need a custom Hasher; a fixed-key
	// SipHash (DefaultHasher::new() is deterministic) is enough: no randomness.
	use std::hash::Hasher;
	let mut h = std::collections::hash_map::DefaultHasher::new();
	t.hash(&mut h);
	h.finish()
}

pub trait Check: Sync {
	fn id(&self) -> &'static str;
	fn level(&self) -> Level;
	fn num_cases(&self, tier: Tier) -> u64;
	/// human/JSON-readable description of a case (goes into replay files and samples)
	fn describe(&self, tier: Tier, idx: u64) -> String;
	/// minimal distinguishing feature of a case, used as signature when the case hangs/aborts
	fn sig_hint(&self, tier: Tier, idx: u64) -> String {
		self.describe(tier, idx)
	}
	fn run_case(&self, tier: Tier, idx: u64, ctx: &mut Ctx);
	fn case_timeout_ms(&self, _tier: Tier) -> u64 {
		60_000
	}
	/// per-case override (a few long-running cases in a check of otherwise short ones)
	fn case_timeout_ms_for(&self, tier: Tier, _idx: u64) -> u64 {
		self.case_timeout_ms(tier)
	}
	fn rule(&self) -> String;
	fn assumptions(&self) -> Vec<String> {
		vec![]
	}
	fn extra_evidence(&self, _tier: Tier) -> Vec<(String, J)> {
		vec![]
	}
	fn exhaustive(&self) -> bool {
		true
	}
	/// write the case index to a progress file before each case: a case that kills its worker process (stack overflow,
	/// abort inside the subject) is then reported as a failure of that case, and the shard goes on without it
	fn track_progress(&self) -> bool {
		true
	}
	fn max_workers(&self) -> usize {
		16
	}
	/// memory limit (bytes) for each worker, 0 = none
	fn worker_mem_limit(&self) -> u64 {
		0
	}
}

// ---------------------------------------------------------------------------------------------
// watchdog

static WATCH_DEADLINE_MS: AtomicU64 = AtomicU64::new(0); // 0 = idle; ms since START
static WATCH_CB_DEADLINE_MS: AtomicU64 = AtomicU64::new(0);
static WATCH_CASE: AtomicU64 = AtomicU64::new(0);
static START: std::sync::OnceLock<Instant> = std::sync::OnceLock::new();

fn now_ms() -> u64 {
	START.get_or_init(Instant::now).elapsed().as_millis() as u64 + 1
}

pub fn watch_case_begin(idx: u64, limit_ms: u64) {
	WATCH_CASE.store(idx, Ordering::SeqCst);
	WATCH_DEADLINE_MS.store(now_ms() + limit_ms, Ordering::SeqCst);
}
pub fn watch_case_end() {
	WATCH_DEADLINE_MS.store(0, Ordering::SeqCst);
}
/// used by the rig around an audio callback: "returns promptly"
pub fn watch_cb_begin(limit_ms: u64) {
	WATCH_CB_DEADLINE_MS.store(now_ms() + limit_ms, Ordering::SeqCst);
}
pub fn watch_cb_end() {
	WATCH_CB_DEADLINE_MS.store(0, Ordering::SeqCst);
}

pub const EXIT_HANG: i32 = 3;

fn start_watchdog(hang_file: String) {
	std::thread::Builder::new()
		.name("watchdog".into())
		.spawn(move || loop {
			std::thread::sleep(Duration::from_millis(50));
			let now = now_ms();
			let d = WATCH_DEADLINE_MS.load(Ordering::SeqCst);
			let c = WATCH_CB_DEADLINE_MS.load(Ordering::SeqCst);
			let kind = if c != 0 && now > c {
				Some("callback")
			} else if d != 0 && now > d {
				Some("case")
			} else {
				None
			};
			if let Some(kind) = kind {
				let idx = WATCH_CASE.load(Ordering::SeqCst);
				let _ = std::fs::write(&hang_file, format!("{} {}", idx, kind));
				std::process::exit(EXIT_HANG);
			}
		})
		.expect("spawn watchdog");
}

// ---------------------------------------------------------------------------------------------
// binary (de)serialisation of a worker's result

fn w_u64(out: &mut Vec<u8>, v: u64) {
	out.extend_from_slice(&v.to_le_bytes());
}
fn w_str(out: &mut Vec<u8>, s: &str) {
	w_u64(out, s.len() as u64);
	out.extend_from_slice(s.as_bytes());
}
struct Rd<'a> {
	b: &'a [u8],
	i: usize,
}
impl<'a> Rd<'a> {
	fn u64(&mut self) -> u64 {
		let v = u64::from_le_bytes(self.b[self.i..self.i + 8].try_into().unwrap());
		self.i += 8;
		v
	}
	fn str(&mut self) -> String {
		let n = self.u64() as usize;
		let s = String::from_utf8_lossy(&self.b[self.i..self.i + n]).to_string();
		self.i += n;
		s
	}
}

fn ser_ctx(c: &Ctx) -> Vec<u8> {
	let mut o = vec![];
	w_u64(&mut o, c.evals);
	w_u64(&mut o, c.transitions);
	w_u64(&mut o, c.traces);
	w_u64(&mut o, c.schedules);
	w_u64(&mut o, c.nontrivial_extra);
	for set in [&c.nontrivial, &c.states, &c.outcomes] {
		w_u64(&mut o, set.len() as u64);
		for v in set {
			w_u64(&mut o, *v);
		}
	}
	w_u64(&mut o, c.counters.len() as u64);
	for (k, v) in &c.counters {
		w_str(&mut o, k);
		w_u64(&mut o, *v);
	}
	w_u64(&mut o, c.fail_counts.len() as u64);
	for (k, v) in &c.fail_counts {
		w_str(&mut o, k);
		w_u64(&mut o, *v);
	}
	w_u64(&mut o, c.failures.len() as u64);
	for f in &c.failures {
		w_str(&mut o, &f.sig);
		w_u64(&mut o, f.case);
		w_str(&mut o, &f.detail);
	}
	w_u64(&mut o, c.samples.len() as u64);
	for (ord, s) in &c.samples {
		w_u64(&mut o, *ord);
		w_str(&mut o, s);
	}
	o
}

fn de_ctx(b: &[u8]) -> Ctx {
	let mut r = Rd { b, i: 0 };
	let mut c = Ctx::default();
	c.evals = r.u64();
	c.transitions = r.u64();
	c.traces = r.u64();
	c.schedules = r.u64();
	c.nontrivial_extra = r.u64();
	for which in 0..3 {
		let n = r.u64();
		for _ in 0..n {
			let v = r.u64();
			match which {
				0 => c.nontrivial.insert(v),
				1 => c.states.insert(v),
				_ => c.outcomes.insert(v),
			};
		}
	}
	let n = r.u64();
	for _ in 0..n {
		let k = r.str();
		let v = r.u64();
		c.counters.insert(k, v);
	}
	let n = r.u64();
	for _ in 0..n {
		let k = r.str();
		let v = r.u64();
		c.fail_counts.insert(k, v);
	}
	let n = r.u64();
	for _ in 0..n {
		let sig = r.str();
		let case = r.u64();
		let detail = r.str();
		c.failures.push(Failure { sig, case, detail });
	}
	let n = r.u64();
	for _ in 0..n {
		let ord = r.u64();
		let s = r.str();
		c.samples.push((ord, s));
	}
	c
}

fn merge(into: &mut Ctx, from: Ctx) {
	into.evals += from.evals;
	into.transitions += from.transitions;
	into.traces += from.traces;
	into.schedules += from.schedules;
	into.nontrivial_extra += from.nontrivial_extra;
	into.nontrivial.extend(from.nontrivial);
	into.states.extend(from.states);
	into.outcomes.extend(from.outcomes);
	for (k, v) in from.counters {
		*into.counters.entry(k).or_insert(0) += v;
	}
	for (k, v) in from.fail_counts {
		*into.fail_counts.entry(k).or_insert(0) += v;
	}
	into.failures.extend(from.failures);
	into.samples.extend(from.samples);
}

// ---------------------------------------------------------------------------------------------
// worker

pub fn worker_main(check: &dyn Check, tier: Tier, shard: u64, nshards: u64, skip: &[u64], resfile: &str) {
	start_watchdog(format!("{}.hang", resfile));
	crate::rig::install_panic_hook();
	let total = check.num_cases(tier);
	let mut ctx = Ctx::default();
	let progress = check.track_progress();
	// an interleaving exploration stops by itself (reporting the bound it completed) well before the case watchdog would fire
	// (set per case below)
	let mut idx = shard;
	// resume from the checkpoint of a previous incarnation of this shard (it hung or died in a later case)
	let ckpt = format!("{}.ckpt", resfile);
	if let Ok(bytes) = std::fs::read(&ckpt) {
		if bytes.len() >= 8 {
			let next = u64::from_le_bytes(bytes[..8].try_into().unwrap());
			ctx = de_ctx(&bytes[8..]);
			idx = next;
		}
	}
	let mut last_ckpt = Instant::now();
	while idx < total {
		if last_ckpt.elapsed() > Duration::from_millis(1500) {
			let mut b = idx.to_le_bytes().to_vec();
			b.extend(ser_ctx(&ctx));
			let _ = std::fs::write(format!("{}.tmp", ckpt), &b).and_then(|_| std::fs::rename(format!("{}.tmp", ckpt), &ckpt));
			last_ckpt = Instant::now();
		}
		if !skip.contains(&idx) {
			if progress {
				let _ = std::fs::write(format!("{}.cur", resfile), idx.to_string());
			}
			ctx.cur_case = idx;
			let limit = check.case_timeout_ms_for(tier, idx);
			crate::sched::set_budget_ms(limit * 6 / 10);
			watch_case_begin(idx, limit);
			check.run_case(tier, idx, &mut ctx);
			watch_case_end();
		}
		idx += nshards;
	}
	std::fs::write(resfile, ser_ctx(&ctx)).expect("write result file");
}

// ---------------------------------------------------------------------------------------------
// parent

struct KnownFinding {
	property: String,
	signature: String,
	what: String,
	status: String,
	/// for findings of exhaustively enumerated interleavings: the number of failing schedules the recorded defect explains
	/// (per tier); more failing schedules than that are histories the finding does not cover
	max_quick: Option<u64>,
	max_thorough: Option<u64>,
}

fn load_known_findings() -> Vec<KnownFinding> {
	let path = format!("{}/known_findings.json", VERIF_DIR);
	let Ok(text) = std::fs::read_to_string(&path) else {
		return vec![];
	};
	let j = match json::parse(&text) {
		Ok(j) => j,
		Err(e) => {
			eprintln!("MACHINERY: cannot parse {}: {}", path, e);
			std::process::exit(2);
		}
	};
	let mut out = vec![];
	if let Some(arr) = j.get("findings").and_then(|a| a.as_arr()) {
		for f in arr {
			out.push(KnownFinding {
				property: f.get("property").and_then(|v| v.as_str()).unwrap_or("").to_string(),
				signature: f.get("signature").and_then(|v| v.as_str()).unwrap_or("").to_string(),
				what: f.get("what").and_then(|v| v.as_str()).unwrap_or("").to_string(),
				status: f.get("status").and_then(|v| v.as_str()).unwrap_or("").to_string(),
				max_quick: f.get("max_occurrences_quick").and_then(|v| v.as_i64()).map(|v| v as u64),
				max_thorough: f.get("max_occurrences_thorough").and_then(|v| v.as_i64()).map(|v| v as u64),
			});
		}
	}
	out
}

pub fn parent_main(check: &dyn Check, tier: Tier) -> i32 {
	let t0 = Instant::now();
	let id = check.id();
	let total = check.num_cases(tier);
	let ncpu = std::thread::available_parallelism().map(|n| n.get()).unwrap_or(4);
	let nshards = (ncpu.min(check.max_workers()) as u64).min(total.max(1));
	let tmpdir = format!("{}/target/tmp", VERIF_DIR);
	std::fs::create_dir_all(&tmpdir).ok();
	let exe = std::env::current_exe().expect("current_exe");
	let pid = std::process::id();

	let mut merged = Ctx::default();
	let mut machinery_errors: Vec<String> = vec![];
	let mut incomplete: Vec<String> = vec![];
	const MAX_RESTARTS: u32 = 12;

	struct Shard {
		shard: u64,
		skip: Vec<u64>,
		child: Option<std::process::Child>,
		resfile: String,
		restarts: u32,
	}
	let spawn = |sh: &mut Shard| {
		let _ = std::fs::remove_file(&sh.resfile);
		if sh.restarts == 0 {
			let _ = std::fs::remove_file(format!("{}.ckpt", sh.resfile));
		}
		let _ = std::fs::remove_file(format!("{}.hang", sh.resfile));
		let _ = std::fs::remove_file(format!("{}.cur", sh.resfile));
		let skip = sh
			.skip
			.iter()
			.map(|s| s.to_string())
			.collect::<Vec<_>>()
			.join(",");
		let mut cmd = std::process::Command::new(&exe);
		cmd.arg("--worker")
			.arg(id)
			.arg(tier.name())
			.arg(sh.shard.to_string())
			.arg(nshards.to_string())
			.arg(if skip.is_empty() { "-".to_string() } else { skip })
			.arg(&sh.resfile)
			.stdin(std::process::Stdio::null());
		if check.worker_mem_limit() > 0 {
			cmd.env("KVH_MEM_LIMIT", check.worker_mem_limit().to_string());
		}
		sh.child = Some(cmd.spawn().expect("spawn worker"));
	};
	let mut shards: Vec<Shard> = (0..nshards)
		.map(|s| Shard {
			shard: s,
			skip: vec![],
			child: None,
			resfile: format!("{}/{}-{}-{}.res", tmpdir, id, pid, s),
			restarts: 0,
		})
		.collect();
	for sh in shards.iter_mut() {
		spawn(sh);
	}
	// hang / abort failures are attributed by the parent
	let mut parent_failures: Vec<Failure> = vec![];
	let mut pending = shards.len();
	while pending > 0 {
		std::thread::sleep(Duration::from_millis(10));
		for sh in shards.iter_mut() {
			let Some(child) = sh.child.as_mut() else { continue };
			let Ok(Some(status)) = child.try_wait() else { continue };
			sh.child = None;
			let code = status.code();
			if code == Some(0) {
				match std::fs::read(&sh.resfile) {
					Ok(bytes) => merge(&mut merged, de_ctx(&bytes)),
					Err(e) => machinery_errors.push(format!("shard {}: no result file: {}", sh.shard, e)),
				}
				let _ = std::fs::remove_file(&sh.resfile);
				let _ = std::fs::remove_file(format!("{}.ckpt", sh.resfile));
				let _ = std::fs::remove_file(format!("{}.cur", sh.resfile));
				pending -= 1;
				continue;
			}
			// abnormal end: hang (watchdog) or abort/crash
			let hang = std::fs::read_to_string(format!("{}.hang", sh.resfile)).ok();
			let cur = std::fs::read_to_string(format!("{}.cur", sh.resfile)).ok();
			let (idx, kind) = if code == Some(EXIT_HANG) && hang.is_some() {
				let h = hang.unwrap();
				let mut it = h.split_whitespace();
				let idx: u64 = it.next().and_then(|s| s.parse().ok()).unwrap_or(u64::MAX);
				let kind = it.next().unwrap_or("case").to_string();
				(idx, format!("hang({})", kind))
			} else if let Some(cur) = cur.and_then(|c| c.trim().parse::<u64>().ok()) {
				(cur, format!("worker-died({:?})", status))
			} else {
				machinery_errors.push(format!(
					"shard {} worker ended abnormally ({:?}) and the case in flight is unknown",
					sh.shard, status
				));
				pending -= 1;
				continue;
			};
			parent_failures.push(Failure {
				sig: format!("{}: {}", kind, check.sig_hint(tier, idx)),
				case: idx,
				detail: format!("{} while running case {}", kind, check.describe(tier, idx)),
			});
			sh.skip.push(idx);
			sh.restarts += 1;
			if idx == u64::MAX || sh.restarts > MAX_RESTARTS {
				incomplete.push(format!(
					"shard {} abandoned after {} hung/aborted cases (each is reported); its remaining cases were not explored",
					sh.shard, sh.restarts
				));
				pending -= 1;
				continue;
			}
			spawn(sh);
		}
	}
	for f in parent_failures {
		*merged.fail_counts.entry(f.sig.clone()).or_insert(0) += 1;
		merged.failures.push(f);
	}

	// ---- verdict ----
	let known = load_known_findings();
	merged.failures.sort_by(|a, b| (a.case, &a.sig).cmp(&(b.case, &b.sig)));
	let sigs: BTreeSet<String> = merged.fail_counts.keys().cloned().collect();
	let mut violations = 0u64;
	let mut known_hits = 0u64;
	std::fs::create_dir_all(format!("{}/replays", VERIF_DIR)).ok();
	let mut n = 0;
	for sig in &sigs {
		let first = merged.failures.iter().find(|f| &f.sig == sig);
		let count = merged.fail_counts.get(sig).copied().unwrap_or(0);
		let k = known
			.iter()
			.find(|k| k.property == id && k.status == "known" && &k.signature == sig);
		n += 1;
		let replay_path = format!("{}/replays/{}-{}-{}.json", VERIF_DIR, id, tier.name(), n);
		let (case, detail) = first.map(|f| (f.case, f.detail.clone())).unwrap_or((0, String::new()));
		let replay = J::obj(vec![
			("property", J::s(id)),
			("tier", J::s(tier.name())),
			("case", J::u(case)),
			("case_description", J::s(check.describe(tier, case))),
			("signature", J::s(sig.clone())),
			("occurrences", J::u(count)),
			("detail", J::s(detail.clone())),
			("replay_cmd", J::s(format!("./check {} --replay {}", id, replay_path))),
		]);
		std::fs::write(&replay_path, replay.to_string_pretty()).ok();
		let cap = k.and_then(|k| if tier == Tier::Quick { k.max_quick } else { k.max_thorough });
		if let (Some(k), Some(cap), true) = (k, cap, cap.map(|c| count > c).unwrap_or(false)) {
			// the enumeration is exhaustive: the recorded finding accounts for `cap` failing schedules; the others are new histories
			known_hits += 1;
			println!(
				"KNOWN-FINDING: property={} {} [signature: {}; {} of {} occurrence(s); replay={}]",
				id, k.what, sig, cap, count, replay_path
			);
			violations += 1;
			println!("VIOLATION property={} replay={}", id, replay_path);
			println!("  signature: {} -- in {} enumerated histories, the recorded finding explains at most {}", sig, count, cap);
			println!("  occurrences: {}", count - cap);
			println!("  first: case {} :: {}", case, truncate(&detail, 600));
		} else if let Some(k) = k {
			known_hits += 1;
			println!(
				"KNOWN-FINDING: property={} {} [signature: {}; {} occurrence(s); replay={}]",
				id, k.what, sig, count, replay_path
			);
		} else {
			violations += 1;
			println!("VIOLATION property={} replay={}", id, replay_path);
			println!("  signature: {}", sig);
			println!("  occurrences: {}", count);
			println!("  first: case {} :: {}", case, truncate(&detail, 600));
		}
	}

	// ---- evidence ----
	let wall = t0.elapsed().as_secs_f64();
	merged.samples.sort();
	let mut samples: Vec<J> = vec![];
	let ns = merged.samples.len();
	for (i, (_, s)) in merged.samples.iter().enumerate() {
		if i < 3 || i + 2 >= ns || i == ns / 2 {
			samples.push(J::s(s.clone()));
		}
	}
	if samples.is_empty() && total > 0 {
		samples.push(J::s(check.describe(tier, 0)));
		samples.push(J::s(check.describe(tier, total / 2)));
		samples.push(J::s(check.describe(tier, total - 1)));
	}
	let mut cov: Vec<(String, J)> = vec![];
	let exhaustive = check.exhaustive() && machinery_errors.is_empty() && incomplete.is_empty();
	match check.level() {
		Level::ModelChecking => {
			cov.push(("states".into(), J::u(merged.states.len() as u64)));
			cov.push(("transitions".into(), J::u(merged.transitions)));
			cov.push(("traces_validated_against_impl".into(), J::u(merged.traces)));
			if merged.schedules > 0 {
				cov.push(("schedules".into(), J::u(merged.schedules)));
			}
			cov.push(("evaluations".into(), J::u(merged.evals)));
			cov.push(("distinct_nontrivial".into(), J::u(merged.nontrivial.len() as u64 + merged.nontrivial_extra)));
		}
		_ => {
			cov.push(("evaluations".into(), J::u(merged.evals)));
			cov.push(("distinct_nontrivial".into(), J::u(merged.nontrivial.len() as u64 + merged.nontrivial_extra)));
			if !merged.states.is_empty() {
				cov.push(("states".into(), J::u(merged.states.len() as u64)));
			}
		}
	}
	cov.push(("distinct_outcomes".into(), J::u(merged.outcomes.len() as u64)));
	cov.push(("cases".into(), J::u(total)));
	cov.push(("rule".into(), J::s(check.rule())));
	cov.push(("samples".into(), J::Arr(samples)));
	cov.push(("exhaustive".into(), J::Bool(exhaustive)));
	cov.push(("counters".into(), json::obj_from_map(&merged.counters)));
	cov.push((
		"failure_signatures".into(),
		J::Obj(
			merged
				.fail_counts
				.iter()
				.map(|(k, v)| (k.clone(), J::u(*v)))
				.collect(),
		),
	));
	cov.push(("known_findings_reproduced".into(), J::u(known_hits)));
	cov.extend(check.extra_evidence(tier));
	let seed: i64 = std::env::var("VERIF_SEED").ok().and_then(|s| s.parse().ok()).unwrap_or(0);
	let ev = J::Obj(vec![
		("property_id".into(), J::s(id)),
		("tier".into(), J::s(tier.name())),
		("seed".into(), J::Int(seed)),
		("level".into(), J::s(check.level().name())),
		("coverage".into(), J::Obj(cov)),
		("assumptions".into(), J::arr_str(check.assumptions())),
		("wall_s".into(), J::Num((wall * 1000.0).round() / 1000.0)),
		("violations".into(), J::Int(violations as i64)),
		("workers".into(), J::u(nshards)),
		(
			"machinery_errors".into(),
			J::arr_str(machinery_errors.iter().cloned().chain(incomplete.iter().cloned())),
		),
	]);
	std::fs::create_dir_all(format!("{}/evidence", VERIF_DIR)).ok();
	let evpath = format!("{}/evidence/{}.json", VERIF_DIR, id);
	std::fs::write(&evpath, ev.to_string_pretty()).expect("write evidence");

	println!(
		"{} {}: cases={} evaluations={} states={} transitions={} schedules={} outcomes={} nontrivial={} failures={} (signatures={}, known={}, violations={}) wall={:.1}s",
		id,
		tier.name(),
		total,
		merged.evals,
		merged.states.len(),
		merged.transitions,
		merged.schedules,
		merged.outcomes.len(),
		merged.nontrivial.len() as u64 + merged.nontrivial_extra,
		merged.total_failures(),
		sigs.len(),
		known_hits,
		violations,
		wall
	);
	for e in &incomplete {
		eprintln!("INCOMPLETE: {}", e);
	}
	if !machinery_errors.is_empty() {
		for e in &machinery_errors {
			eprintln!("MACHINERY: {}", e);
		}
		return 2;
	}
	if !incomplete.is_empty() && violations == 0 {
		// nothing new was found but part of the space was not explored: no verdict
		return 2;
	}
	// vacuity guard: an exploration that saw a single outcome explored nothing
	if merged.evals == 0 {
		eprintln!("MACHINERY: no evaluations were performed");
		return 2;
	}
	if violations > 0 {
		1
	} else {
		0
	}
}

fn truncate(s: &str, n: usize) -> String {
	if s.len() <= n {
		s.to_string()
	} else {
		let mut end = n;
		while !s.is_char_boundary(end) {
			end -= 1;
		}
		format!("{}…", &s[..end])
	}
}

/// `./check <id> --replay <file>`: re-execute exactly the recorded case, verbosely.
pub fn replay_main(check: &dyn Check, file: &str) -> i32 {
	let mut text = String::new();
	if std::fs::File::open(file).and_then(|mut f| f.read_to_string(&mut text)).is_err() {
		eprintln!("MACHINERY: cannot read {}", file);
		return 2;
	}
	let j = match json::parse(&text) {
		Ok(j) => j,
		Err(e) => {
			eprintln!("MACHINERY: bad replay file: {}", e);
			return 2;
		}
	};
	let tier = j
		.get("tier")
		.and_then(|t| t.as_str())
		.and_then(Tier::parse)
		.unwrap_or(Tier::Quick);
	let case = j.get("case").and_then(|c| c.as_i64()).unwrap_or(0) as u64;
	println!("replaying {} case {} ({}): {}", check.id(), case, tier.name(), check.describe(tier, case));
	start_watchdog(format!("{}/target/tmp/replay.hang", VERIF_DIR));
	crate::rig::install_panic_hook();
	let mut digests = vec![];
	let mut last = None;
	for round in 0..2 {
		let mut ctx = Ctx::default();
		ctx.verbose = round == 0;
		ctx.cur_case = case;
		watch_case_begin(case, check.case_timeout_ms_for(tier, case));
		check.run_case(tier, case, &mut ctx);
		watch_case_end();
		let mut sigs: Vec<(String, u64)> = ctx.fail_counts.iter().map(|(k, v)| (k.clone(), *v)).collect();
		sigs.sort();
		digests.push(sigs);
		last = Some(ctx);
	}
	if digests[0] != digests[1] {
		eprintln!("MACHINERY: replay is not deterministic: {:?} vs {:?}", digests[0], digests[1]);
		return 2;
	}
	let ctx = last.unwrap();
	let _ = std::io::stdout().flush();
	if ctx.fail_counts.is_empty() {
		println!("replay: no failure");
		0
	} else {
		for (sig, n) in &ctx.fail_counts {
			println!("replay: failure signature {:?} x{}", sig, n);
		}
		1
	}
}
