//! E2: controlled scheduler
