//! E2: controlled scheduler (preemption-bounded DFS over real thread interleavings).
use kira::verif::Event;

pub fn sched_hook(_ev: Event) {}
