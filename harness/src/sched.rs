//! E2: stateless exploration of real thread interleavings.
//!
//! Threads are real OS threads running real kira code. They can only switch at *sync points*:
//! the `kira::verif::sync_point` hooks in kira and the `vhook::point` hooks in the instrumented
//! copies of triple_buffer / rtrb / atomic-arena (one before every cross-thread atomic
//! operation). Exactly one controlled thread runs at a time; at every sync point of the running
//! thread the scheduler decides who runs next. Exploration is iterative context bounding:
//! depth-first over choice vectors, an alternative is taken only while the number of
//! preemptions stays within the bound. Everything is re-executed from scratch per schedule.

use kira::verif::Event;
use std::cell::Cell;
use std::sync::{Arc, Condvar, Mutex};
use std::time::{Duration, Instant};

#[derive(Debug, Clone, Copy, PartialEq, Eq)]
enum TStatus {
	/// parked at a sync point (or at its start), can be chosen
	Parked,
	Running,
	Finished,
}

#[derive(Debug, Clone)]
struct TInfo {
	name: String,
	status: TStatus,
	yielded: bool,
	site: &'static str,
	/// a thread kira spawned itself
	adopted: bool,
}

#[derive(Debug, Clone, Copy, PartialEq, Eq)]
pub struct Point {
	pub n_enabled: u8,
	pub chosen: u8,
	/// was the previously running thread still enabled (so that choosing another one is a preemption)?
	pub cur_enabled: bool,
	pub thread: u8,
}

#[derive(Debug, Clone, Copy, PartialEq, Eq)]
pub enum EndKind {
	Completed,
	/// the step horizon was reached; remaining threads were released to free-run
	Horizon,
	/// only yielding (spinning/waiting) threads remained for too many rounds
	Livelock,
}

struct State {
	active: bool,
	threads: Vec<TInfo>,
	current: Option<usize>,
	prefix: Vec<u8>,
	trace: Vec<Point>,
	sites: Vec<(u8, &'static str)>,
	filter: fn(&'static str) -> bool,
	horizon: usize,
	aborting: Option<EndKind>,
	done: bool,
	spawned: usize,
	registered: usize,
	spin_rounds: usize,
	max_spin_rounds: usize,
	divergence: Option<String>,
	record_sites: bool,
	soft_yield: Option<(&'static str, usize)>,
	soft_count: usize,
	soft_thread: Option<usize>,
}

static ST: Mutex<Option<State>> = Mutex::new(None);
static CV: Condvar = Condvar::new();

thread_local! {
	static TID: Cell<Option<usize>> = const { Cell::new(None) };
	static DETACHED: Cell<bool> = const { Cell::new(false) };
}

fn lock() -> std::sync::MutexGuard<'static, Option<State>> {
	ST.lock().unwrap_or_else(|e| e.into_inner())
}

pub fn install_shim_hooks() {
	fn shim(site: &'static str) {
		if crate::pacer::mode() == crate::pacer::Mode::Sched {
			sched_hook(Event::Sync(site));
		}
	}
	triple_buffer::vhook::set_hook(Some(shim));
	rtrb::vhook::set_hook(Some(shim));
	atomic_arena::vhook::set_hook(Some(shim));
}

/// decide who runs next. Must be called with the lock held by the thread `me` that just parked/finished/yielded.
fn decide(st: &mut State, me: Option<usize>) {
	if st.aborting.is_some() {
		return;
	}
	// enabled threads in canonical order: the running thread first if it is still enabled, then ascending ids
	let mut others: Vec<usize> = vec![];
	let mut cur_enabled = false;
	for (i, t) in st.threads.iter().enumerate() {
		if t.status == TStatus::Parked && !t.yielded {
			if Some(i) == me {
				cur_enabled = true;
			} else {
				others.push(i);
			}
		}
	}
	let mut enabled: Vec<usize> = vec![];
	if cur_enabled {
		enabled.push(me.unwrap());
	}
	enabled.extend(others);
	if enabled.is_empty() {
		// only yielded threads (or nothing) remain
		let waiting: Vec<usize> = st
			.threads
			.iter()
			.enumerate()
			.filter(|(_, t)| t.status == TStatus::Parked)
			.map(|(i, _)| i)
			.collect();
		if waiting.is_empty() {
			if st.threads.iter().all(|t| t.status == TStatus::Finished) {
				st.done = true;
			}
			st.current = None;
			CV.notify_all();
			return;
		}
		st.spin_rounds += 1;
		if st.spin_rounds > st.max_spin_rounds {
			st.aborting = Some(EndKind::Livelock);
			st.current = None;
			CV.notify_all();
			return;
		}
		for t in st.threads.iter_mut() {
			t.yielded = false;
		}
		enabled = waiting;
		// canonical order again
		if let Some(m) = me {
			if let Some(p) = enabled.iter().position(|x| *x == m) {
				enabled.remove(p);
				enabled.insert(0, m);
				cur_enabled = true;
			}
		}
	}
	let idx = st.trace.len();
	if idx >= st.horizon {
		st.aborting = Some(EndKind::Horizon);
		st.current = None;
		CV.notify_all();
		return;
	}
	let choice = if idx < st.prefix.len() {
		let c = st.prefix[idx] as usize;
		if c >= enabled.len() {
			st.divergence = Some(format!(
				"replay divergence at point {}: prefix asks for choice {} but only {} thread(s) are enabled",
				idx,
				c,
				enabled.len()
			));
			0
		} else {
			c
		}
	} else {
		0
	};
	let chosen = enabled[choice];
	// the cost of leaving the current thread: free when it stands at an operation boundary
	let cur_enabled = cur_enabled && !me.map(|m| st.threads[m].site.starts_with("boundary:")).unwrap_or(false);
	st.trace.push(Point {
		n_enabled: enabled.len().min(255) as u8,
		chosen: choice as u8,
		cur_enabled,
		thread: chosen as u8,
	});
	if st.record_sites {
		let site = st.threads[chosen].site;
		st.sites.push((chosen as u8, site));
	}
	// any step by another thread re-enables yielded threads
	for (i, t) in st.threads.iter_mut().enumerate() {
		if i != chosen {
			// a yielded thread stays disabled until someone else *takes a step*, i.e. now
			if t.yielded && Some(i) != Some(chosen) {
				t.yielded = false;
			}
		}
	}
	if st.soft_thread.is_some() && st.soft_thread != Some(chosen) {
		st.soft_thread = None;
		st.soft_count = 0;
	}
	st.current = Some(chosen);
	CV.notify_all();
}

/// park the calling controlled thread until it is chosen (or the execution is aborted)
fn wait_turn(mut g: std::sync::MutexGuard<'static, Option<State>>, me: usize) {
	loop {
		{
			let st = g.as_mut().unwrap();
			if st.aborting.is_some() {
				DETACHED.with(|d| d.set(true));
				return;
			}
			if st.current == Some(me) {
				st.threads[me].status = TStatus::Running;
				return;
			}
		}
		g = CV.wait(g).unwrap_or_else(|e| e.into_inner());
		if g.is_none() {
			DETACHED.with(|d| d.set(true));
			return;
		}
	}
}

pub fn sched_hook(ev: Event) {
	if DETACHED.with(|d| d.get()) {
		return;
	}
	// the scheduler's own bookkeeping (trace recording, condvar waits) runs on the hooked thread: keep it out of the
	// audio-thread allocation monitor
	let _pause = crate::rig::PauseAllocCount::new();
	sched_hook_inner(ev)
}
fn sched_hook_inner(ev: Event) {
	match ev {
		Event::Sync(site) => {
			let mut g = lock();
			let Some(st) = g.as_mut() else { return };
			if !st.active {
				return;
			}
			let me = match TID.with(|t| t.get()) {
				Some(me) => me,
				None => {
					// an unknown thread: adopt it if kira announced a spawn, otherwise it is not ours.
					// A decoder thread may reach its first gate before its spawner has announced it: it waits.
					if site == "decoder.gate" {
						let t0 = Instant::now();
						loop {
							let st = g.as_mut().unwrap();
							if st.registered < st.spawned || st.aborting.is_some() || t0.elapsed() > Duration::from_secs(10) {
								break;
							}
							let (ng, _) = CV.wait_timeout(g, Duration::from_millis(5)).unwrap_or_else(|e| e.into_inner());
							g = ng;
							if g.is_none() {
								DETACHED.with(|d| d.set(true));
								return;
							}
						}
					}
					let st = g.as_mut().unwrap();
					if st.registered < st.spawned {
						st.registered += 1;
						st.threads.push(TInfo {
							name: format!("kira-thread-{}", st.threads.len()),
							status: TStatus::Parked,
							yielded: false,
							site,
							adopted: true,
						});
						let me = st.threads.len() - 1;
						TID.with(|t| t.set(Some(me)));
						CV.notify_all();
						wait_turn(g, me);
						return;
					}
					return;
				}
			};
			if st.aborting.is_some() {
				DETACHED.with(|d| d.set(true));
				return;
			}
			let mut is_yield = site.starts_with("yield:");
			// "boundary:" = the thread stands between two operations of its script: it stays enabled, but switching away
			// from it here is not a preemption (CHESS counts only switches forced in the middle of an operation)
			let is_boundary = site.starts_with("boundary:");
			if let Some((ysite, n)) = st.soft_yield {
				if site == ysite {
					if st.soft_thread == Some(me) {
						st.soft_count += 1;
					} else {
						st.soft_thread = Some(me);
						st.soft_count = 1;
					}
					if st.soft_count > n {
						is_yield = true;
						st.soft_count = 0;
					}
				}
			}
			if !is_yield && !is_boundary && !(st.filter)(site) {
				return;
			}
			st.threads[me].status = TStatus::Parked;
			st.threads[me].site = site;
			if is_yield {
				st.threads[me].yielded = true;
			} else {
				st.spin_rounds = 0;
			}
			decide(st, Some(me));
			wait_turn(g, me);
		}
		Event::ThreadSpawned => {
			let mut g = lock();
			let Some(st) = g.as_mut() else { return };
			if !st.active {
				return;
			}
			st.spawned += 1;
			let want = st.spawned;
			let t0 = Instant::now();
			loop {
				let st = g.as_mut().unwrap();
				if st.registered >= want || st.aborting.is_some() {
					break;
				}
				let (ng, _) = CV.wait_timeout(g, Duration::from_millis(50)).unwrap_or_else(|e| e.into_inner());
				g = ng;
				if g.is_none() {
					return;
				}
				if t0.elapsed() > Duration::from_secs(10) {
					g.as_mut().unwrap().divergence = Some("a thread spawned by kira never reached its first sync point".into());
					break;
				}
			}
		}
		Event::ThreadExit => {
			let Some(me) = TID.with(|t| t.get()) else { return };
			let mut g = lock();
			let Some(st) = g.as_mut() else { return };
			DETACHED.with(|d| d.set(true));
			if st.aborting.is_some() {
				return;
			}
			st.threads[me].status = TStatus::Finished;
			st.spin_rounds = 0;
			decide(st, None);
		}
	}
}

// ---------------------------------------------------------------------------------------------
// running one execution

pub struct Exec {
	handles: Vec<std::thread::JoinHandle<()>>,
}

pub struct RunResult {
	pub trace: Vec<Point>,
	pub sites: Vec<(u8, &'static str)>,
	pub end: EndKind,
	pub divergence: Option<String>,
	pub thread_names: Vec<String>,
	/// adopted (kira-spawned) threads that had not finished when the execution ended
	pub unfinished_adopted: usize,
	pub panics: Vec<String>,
}

#[derive(Clone)]
pub struct Config {
	pub filter: fn(&'static str) -> bool,
	pub horizon: usize,
	pub max_spin_rounds: usize,
	pub record_sites: bool,
	/// fairness: after a thread passed this site `n` times in a row without any other thread running, the site
	/// counts as a yield (the thread is disabled until another thread has taken a step)
	pub soft_yield: Option<(&'static str, usize)>,
}

impl Default for Config {
	fn default() -> Self {
		Self {
			filter: |_| true,
			horizon: 4000,
			max_spin_rounds: 24,
			record_sites: false,
			soft_yield: None,
		}
	}
}

static PANICS: Mutex<Vec<String>> = Mutex::new(Vec::new());

impl Exec {
	/// start an execution: installs the scheduler state; threads spawned through `spawn` are controlled
	pub fn begin(cfg: &Config, prefix: &[u8]) -> Exec {
		crate::pacer::set_mode(crate::pacer::Mode::Sched);
		install_shim_hooks();
		let mut g = lock();
		*g = Some(State {
			active: true,
			threads: vec![],
			current: None,
			prefix: prefix.to_vec(),
			trace: vec![],
			sites: vec![],
			filter: cfg.filter,
			horizon: cfg.horizon,
			aborting: None,
			done: false,
			spawned: 0,
			registered: 0,
			spin_rounds: 0,
			max_spin_rounds: cfg.max_spin_rounds,
			divergence: None,
			record_sites: cfg.record_sites,
			soft_yield: cfg.soft_yield,
			soft_count: 0,
			soft_thread: None,
		});
		PANICS.lock().unwrap_or_else(|e| e.into_inner()).clear();
		Exec { handles: vec![] }
	}

	/// spawn a controlled thread; it does not start running before `run()`
	pub fn spawn(&mut self, name: &str, f: impl FnOnce() + Send + 'static) {
		let me = {
			let mut g = lock();
			let st = g.as_mut().unwrap();
			st.threads.push(TInfo {
				name: name.to_string(),
				status: TStatus::Parked,
				yielded: false,
				site: "start",
				adopted: false,
			});
			st.threads.len() - 1
		};
		let h = std::thread::Builder::new()
			.name(name.to_string())
			.spawn(move || {
				TID.with(|t| t.set(Some(me)));
				DETACHED.with(|d| d.set(false));
				wait_turn(lock(), me);
				let r = crate::rig::catch(f);
				if let Err(p) = r {
					PANICS.lock().unwrap_or_else(|e| e.into_inner()).push(format!("thread {}: {}", me, p));
				}
				let mut g = lock();
				if let Some(st) = g.as_mut() {
					st.threads[me].status = TStatus::Finished;
					st.spin_rounds = 0;
					if !DETACHED.with(|d| d.get()) {
						decide(st, None);
					} else if st.threads.iter().all(|t| t.status == TStatus::Finished || t.adopted) {
						st.done = true;
						CV.notify_all();
					}
				}
				DETACHED.with(|d| d.set(true));
			})
			.expect("spawn controlled thread");
		self.handles.push(h);
	}

	/// run the controlled threads to completion under the scheduler
	pub fn run(mut self) -> RunResult {
		{
			let mut g = lock();
			let st = g.as_mut().unwrap();
			decide(st, None);
		}
		let t0 = Instant::now();
		let mut g = lock();
		loop {
			let st = g.as_mut().unwrap();
			if st.done || st.aborting.is_some() {
				break;
			}
			let (ng, _) = CV.wait_timeout(g, Duration::from_millis(20)).unwrap_or_else(|e| e.into_inner());
			g = ng;
			if t0.elapsed() > Duration::from_secs(30) {
				let st = g.as_mut().unwrap();
				st.divergence = Some(format!(
					"execution did not finish within 30 s (threads: {:?})",
					st.threads.iter().map(|t| (t.name.clone(), t.status, t.site)).collect::<Vec<_>>()
				));
				st.aborting = Some(EndKind::Horizon);
				CV.notify_all();
				break;
			}
		}
		let end = g.as_ref().unwrap().aborting.unwrap_or(EndKind::Completed);
		CV.notify_all();
		drop(g);
		// harness threads are finite programs: once released they finish
		for h in self.handles.drain(..) {
			let _ = h.join();
		}
		let mut g = lock();
		let st = g.take().unwrap();
		CV.notify_all();
		drop(g);
		crate::pacer::set_mode(crate::pacer::Mode::Off);
		RunResult {
			trace: st.trace,
			sites: st.sites,
			end,
			divergence: st.divergence,
			thread_names: st.threads.iter().map(|t| t.name.clone()).collect(),
			unfinished_adopted: st.threads.iter().filter(|t| t.adopted && t.status != TStatus::Finished).count(),
			panics: PANICS.lock().unwrap_or_else(|e| e.into_inner()).clone(),
		}
	}
}

// ---------------------------------------------------------------------------------------------
// exploration

static STOP: std::sync::atomic::AtomicBool = std::sync::atomic::AtomicBool::new(false);

/// ask the running exploration to stop after the current schedule (used when a harness leaks threads on every run)
pub fn request_stop() {
	STOP.store(true, std::sync::atomic::Ordering::SeqCst);
}

pub struct ExploreStats {
	/// distinct schedules judged
	pub schedules: u64,
	/// executions performed (iterative context bounding re-runs the schedules of the lower levels)
	pub executions: u64,
	pub max_points: usize,
	pub max_preemptions_used: u32,
	pub horizon_hits: u64,
	pub livelocks: u64,
	/// the exploration stopped early (schedule cap, time budget or request_stop)
	pub capped: bool,
	/// highest preemption bound whose schedules were ALL explored
	pub completed_bound: Option<u32>,
	/// every schedule of the harness was explored (a level added no schedule: nothing deeper exists)
	pub complete: bool,
	pub error: Option<String>,
}

/// wall-clock budget of one `explore` call in milliseconds (0 = none); when it runs out the exploration stops at
/// the end of the current execution and reports `capped` with the last fully completed bound
static BUDGET_MS: std::sync::atomic::AtomicU64 = std::sync::atomic::AtomicU64::new(0);
pub fn set_budget_ms(ms: u64) {
	BUDGET_MS.store(ms, std::sync::atomic::Ordering::SeqCst);
}

/// Explore all schedules of `body` with at most `bound` preemptions (None = until no deeper schedule exists), by
/// iterative context bounding: level 0 (no preemption), then 1, then 2, ... Each level is a depth-first search over
/// choice vectors with re-execution from scratch; a schedule is judged at the level that equals its preemption count.
/// `body(prefix)` builds fresh objects, runs one execution with `Exec::begin(cfg, prefix)` and returns the run
/// result plus the harness' observation; `judge` is called once for every distinct completed schedule.
pub fn explore<O: PartialEq + std::fmt::Debug>(
	bound: Option<u32>,
	max_schedules: u64,
	body: &mut dyn FnMut(&[u8]) -> (RunResult, O),
	judge: &mut dyn FnMut(&RunResult, &O, &[u8]),
) -> ExploreStats {
	let mut stats = ExploreStats {
		schedules: 0,
		executions: 0,
		max_points: 0,
		max_preemptions_used: 0,
		horizon_hits: 0,
		livelocks: 0,
		capped: false,
		completed_bound: None,
		complete: false,
		error: None,
	};
	let t0 = std::time::Instant::now();
	let budget = BUDGET_MS.load(std::sync::atomic::Ordering::SeqCst);
	STOP.store(false, std::sync::atomic::Ordering::SeqCst);
	// unbounded: one depth-first pass over everything (no re-execution of lower levels); if it is cut short no bound is claimed
	let unbounded = bound.is_none();
	let mut level = if unbounded { u32::MAX } else { 0u32 };
	loop {
		if let Some(b) = bound {
			if level > b {
				break;
			}
		}
		let mut new_at_level = 0u64;
		let mut stack: Vec<Vec<u8>> = vec![vec![]];
		let mut finished_level = true;
		while let Some(prefix) = stack.pop() {
			if STOP.load(std::sync::atomic::Ordering::SeqCst) || stats.schedules >= max_schedules || (budget > 0 && t0.elapsed().as_millis() as u64 > budget) {
				stats.capped = true;
				finished_level = false;
				break;
			}
			let (res, obs) = body(&prefix);
			stats.executions += 1;
			if stats.executions == 1 {
				// determinism is checked, not assumed: the first schedule once more, same observation and same trace
				let (res2, obs2) = body(&prefix);
				if obs2 != obs || res2.trace != res.trace {
					stats.error = Some(format!(
						"the harness is not deterministic: replaying the first schedule gave a different observation or trace ({:?} / {} points vs {:?} / {} points)",
						obs,
						res.trace.len(),
						obs2,
						res2.trace.len()
					));
					return stats;
				}
			}
			if let Some(d) = &res.divergence {
				stats.error = Some(d.clone());
				return stats;
			}
			// the prefix must have been followed
			for (i, c) in prefix.iter().enumerate() {
				if res.trace.get(i).map(|p| p.chosen) != Some(*c) {
					stats.error = Some(format!("replay divergence: prefix {:?} not reproduced (trace {:?})", prefix, &res.trace[..res.trace.len().min(prefix.len() + 1)]));
					return stats;
				}
			}
			let choices: Vec<u8> = res.trace.iter().map(|p| p.chosen).collect();
			let mut pre = 0u32;
			let mut pre_at: Vec<u32> = Vec::with_capacity(res.trace.len());
			for p in &res.trace {
				pre_at.push(pre);
				if p.chosen != 0 && p.cur_enabled {
					pre += 1;
				}
			}
			if pre == level || unbounded {
				// a schedule is judged exactly once: at the level of its own preemption count
				new_at_level += 1;
				stats.schedules += 1;
				match res.end {
					EndKind::Horizon => stats.horizon_hits += 1,
					EndKind::Livelock => stats.livelocks += 1,
					EndKind::Completed => {}
				}
				stats.max_points = stats.max_points.max(res.trace.len());
				stats.max_preemptions_used = stats.max_preemptions_used.max(pre);
				judge(&res, &obs, &choices);
			}
			// children within this level's bound
			for i in (prefix.len()..res.trace.len()).rev() {
				let p = res.trace[i];
				for alt in 1..p.n_enabled {
					let cost = pre_at[i] + if p.cur_enabled { 1 } else { 0 };
					if cost <= level {
						let mut np = choices[..i].to_vec();
						np.push(alt);
						stack.push(np);
					}
				}
			}
		}
		if !finished_level {
			break;
		}
		if unbounded {
			stats.complete = true;
			stats.completed_bound = Some(stats.max_preemptions_used);
			break;
		}
		stats.completed_bound = Some(level);
		if new_at_level == 0 {
			// no schedule has exactly `level` preemptions, hence none has more: everything was explored
			stats.complete = true;
			stats.completed_bound = Some(level.saturating_sub(1));
			break;
		}
		level += 1;
	}
	if bound.is_none() && !stats.complete && !stats.capped {
		stats.complete = true;
	}
	stats
}

/// records what an exploration covered in the evidence counters of the running case
pub fn report(ctx: &mut crate::engine::Ctx, stats: &ExploreStats) {
	let label = format!("case {}", ctx.cur_case);
	ctx.count(&format!("e2_executions[{}]", label), stats.executions);
	ctx.count(&format!("e2_distinct_schedules[{}]", label), stats.schedules);
	if let Some(b) = stats.completed_bound {
		ctx.count(&format!("e2_completed_preemption_bound[{}]", label), b as u64);
	}
	if stats.complete {
		ctx.count(&format!("e2_all_schedules_explored[{}]", label), 1);
	}
	if stats.capped {
		ctx.count(&format!("e2_stopped_early_by_cap_or_budget[{}]", label), 1);
	}
}

pub fn fmt_schedule(res: &RunResult) -> String {
	let mut s = String::new();
	for (i, p) in res.trace.iter().enumerate() {
		if p.chosen != 0 || i == 0 {
			let site = res.sites.get(i).map(|x| x.1).unwrap_or("");
			s.push_str(&format!("[{}:{}→T{}@{}] ", i, p.chosen, p.thread, site));
		}
	}
	s
}

#[allow(dead_code)]
pub fn arc_mutex<T>(t: T) -> Arc<Mutex<T>> {
	Arc::new(Mutex::new(t))
}

/// wrapper for observation fields that must not take part in the determinism comparison
/// (e.g. counters that a released, no longer controlled thread keeps changing)
#[derive(Clone, Default)]
pub struct NoCmp<T>(pub T);
impl<T> PartialEq for NoCmp<T> {
	fn eq(&self, _: &Self) -> bool {
		true
	}
}
impl<T: std::fmt::Debug> std::fmt::Debug for NoCmp<T> {
	fn fmt(&self, f: &mut std::fmt::Formatter<'_>) -> std::fmt::Result {
		self.0.fmt(f)
	}
}
