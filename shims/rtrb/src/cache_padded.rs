use core::{
    fmt,
    ops::{Deref, DerefMut},
};

/// Pads and aligns a value to the length of a cache line.
///
/// In concurrent programming, sometimes it is desirable to make sure commonly accessed pieces of
/// data are not placed into the same cache line. Updating an atomic value invalidates the whole
/// cache line it belongs to, which makes the next access to the same cache line slower for other
/// CPU cores. Use `CachePadded` to ensure updating one piece of data doesn't invalidate other
/// cached data.
///
/// # Size and alignment
///
/// Cache lines are assumed to be N bytes long, depending on the architecture:
///
/// * On x86-64, aarch64, and powerpc64, N = 128.
/// * On arm, mips, mips64, sparc, and hexagon, N = 32.
/// * On m68k, N = 16.
/// * On s390x, N = 256.
/// * On all others, N = 64.
///
/// Note that N is just a reasonable guess and is not guaranteed to match the actual cache line
/// length of the machine the program is running on. On modern Intel architectures, spatial
/// prefetcher is pulling pairs of 64-byte cache lines at a time, so we pessimistically assume that
/// cache lines are 128 bytes long.
///
/// The size of `CachePadded<T>` is the smallest multiple of N bytes large enough to accommodate
/// a value of type `T`.
///
/// The alignment of `CachePadded<T>` is the maximum of N bytes and the alignment of `T`.
///
/// # Examples
///
/// Alignment and padding:
///
/// ```
/// use crossbeam_utils::CachePadded;
///
/// let array = [CachePadded::new(1i8), CachePadded::new(2i8)];
/// let addr1 = &*array[0] as *const i8 as usize;
/// let addr2 = &*array[1] as *const i8 as usize;
///
/// assert!(addr2 - addr1 >= 32);
/// assert_eq!(addr1 % 32, 0);
/// assert_eq!(addr2 % 32, 0);
/// ```
///
/// When building a concurrent queue with a head and a tail index, it is wise to place them in
/// different cache lines so that concurrent threads pushing and popping elements don't invalidate
/// each other's cache lines:
///
/// ```
/// use crossbeam_utils::CachePadded;
/// use std::sync::atomic::AtomicUsize;
///
/// struct Queue<T> {
///     head: CachePadded<AtomicUsize>,
///     tail: CachePadded<AtomicUsize>,
///     buffer: *mut T,
/// }
/// ```
#[derive(Clone, Copy, Default, Hash, PartialEq, Eq)]
// Starting from Intel's Sandy Bridge, spatial prefetcher is now pulling pairs of 64-byte cache
// lines at a time, so we have to align to 128 bytes rather than 64.
//
// Sources:
// - https://www.intel.com/content/dam/www/public/us/en/documents/manuals/64-ia-32-architectures-optimization-manual.pdf
// - https://github.com/facebook/folly/blob/1b5288e6eea6df074758f877c849b6e73bbb9fbb/folly/lang/Align.h#L107
//
// aarch64/arm64ec's big.LITTLE architecture has asymmetric cores and "big" cores have 128-byte cache line size.
//
// Sources:
// - https://www.mono-project.com/news/2016/09/12/arm64-icache/
//
// powerpc64 has 128-byte cache line size.
//
// Sources:
// - https://github.com/golang/go/blob/3dd58676054223962cd915bb0934d1f9f489d4d2/src/internal/cpu/cpu_ppc64x.go#L9
// - https://github.com/torvalds/linux/blob/3516bd729358a2a9b090c1905bd2a3fa926e24c6/arch/powerpc/include/asm/cache.h#L26
#[cfg_attr(
    any(
        target_arch = "x86_64",
        target_arch = "aarch64",
        target_arch = "arm64ec",
        target_arch = "powerpc64",
    ),
    repr(align(128))
)]
// arm, mips, mips64, sparc, and hexagon have 32-byte cache line size.
//
// Sources:
// - https://github.com/golang/go/blob/3dd58676054223962cd915bb0934d1f9f489d4d2/src/internal/cpu/cpu_arm.go#L7
// - https://github.com/golang/go/blob/3dd58676054223962cd915bb0934d1f9f489d4d2/src/internal/cpu/cpu_mips.go#L7
// - https://github.com/golang/go/blob/3dd58676054223962cd915bb0934d1f9f489d4d2/src/internal/cpu/cpu_mipsle.go#L7
// - https://github.com/golang/go/blob/3dd58676054223962cd915bb0934d1f9f489d4d2/src/internal/cpu/cpu_mips64x.go#L9
// - https://github.com/torvalds/linux/blob/3516bd729358a2a9b090c1905bd2a3fa926e24c6/arch/sparc/include/asm/cache.h#L17
// - https://github.com/torvalds/linux/blob/3516bd729358a2a9b090c1905bd2a3fa926e24c6/arch/hexagon/include/asm/cache.h#L12
#[cfg_attr(
    any(
        target_arch = "arm",
        target_arch = "mips",
        target_arch = "mips32r6",
        target_arch = "mips64",
        target_arch = "mips64r6",
        target_arch = "sparc",
        target_arch = "hexagon",
    ),
    repr(align(32))
)]
// m68k has 16-byte cache line size.
//
// Sources:
// - https://github.com/torvalds/linux/blob/3516bd729358a2a9b090c1905bd2a3fa926e24c6/arch/m68k/include/asm/cache.h#L9
#[cfg_attr(target_arch = "m68k", repr(align(16)))]
// s390x has 256-byte cache line size.
//
// Sources:
// - https://github.com/golang/go/blob/3dd58676054223962cd915bb0934d1f9f489d4d2/src/internal/cpu/cpu_s390x.go#L7
// - https://github.com/torvalds/linux/blob/3516bd729358a2a9b090c1905bd2a3fa926e24c6/arch/s390/include/asm/cache.h#L13
#[cfg_attr(target_arch = "s390x", repr(align(256)))]
// x86, wasm, riscv, and sparc64 have 64-byte cache line size.
//
// Sources:
// - https://github.com/golang/go/blob/dda2991c2ea0c5914714469c4defc2562a907230/src/internal/cpu/cpu_x86.go#L9
// - https://github.com/golang/go/blob/3dd58676054223962cd915bb0934d1f9f489d4d2/src/internal/cpu/cpu_wasm.go#L7
// - https://github.com/torvalds/linux/blob/3516bd729358a2a9b090c1905bd2a3fa926e24c6/arch/riscv/include/asm/cache.h#L10
// - https://github.com/torvalds/linux/blob/3516bd729358a2a9b090c1905bd2a3fa926e24c6/arch/sparc/include/asm/cache.h#L19
//
// All others are assumed to have 64-byte cache line size.
#[cfg_attr(
    not(any(
        target_arch = "x86_64",
        target_arch = "aarch64",
        target_arch = "arm64ec",
        target_arch = "powerpc64",
        target_arch = "arm",
        target_arch = "mips",
        target_arch = "mips32r6",
        target_arch = "mips64",
        target_arch = "mips64r6",
        target_arch = "sparc",
        target_arch = "hexagon",
        target_arch = "m68k",
        target_arch = "s390x",
    )),
    repr(align(64))
)]
pub struct CachePadded<T> {
    value: T,
}

unsafe impl<T: Send> Send for CachePadded<T> {}
unsafe impl<T: Sync> Sync for CachePadded<T> {}

impl<T> CachePadded<T> {
    /// Pads and aligns a value to the length of a cache line.
    ///
    /// # Examples
    ///
    /// ```
    /// use crossbeam_utils::CachePadded;
    ///
    /// let padded_value = CachePadded::new(1);
    /// ```
    pub const fn new(t: T) -> Self {
        Self { value: t }
    }

    /// Returns the inner value.
    ///
    /// # Examples
    ///
    /// ```
    /// use crossbeam_utils::CachePadded;
    ///
    /// let padded_value = CachePadded::new(7);
    /// let value = padded_value.into_inner();
    /// assert_eq!(value, 7);
    /// ```
    pub fn into_inner(self) -> T {
        self.value
    }
}

impl<T> Deref for CachePadded<T> {
    type Target = T;

    fn deref(&self) -> &T {
        &self.value
    }
}

impl<T> DerefMut for CachePadded<T> {
    fn deref_mut(&mut self) -> &mut T {
        &mut self.value
    }
}

impl<T: fmt::Debug> fmt::Debug for CachePadded<T> {
    fn fmt(&self, f: &mut fmt::Formatter<'_>) -> fmt::Result {
        f.debug_struct("CachePadded")
            .field("value", &self.value)
            .finish()
    }
}

impl<T> From<T> for CachePadded<T> {
    fn from(t: T) -> Self {
        Self::new(t)
    }
}

impl<T: fmt::Display> fmt::Display for CachePadded<T> {
    fn fmt(&self, f: &mut fmt::Formatter<'_>) -> fmt::Result {
        fmt::Display::fmt(&self.value, f)
    }
}
