//! Writing and reading multiple items at once into and from a [`RingBuffer`].
//!
//! Multiple items at once can be moved from an iterator into the ring buffer by using
//! [`Producer::write_chunk_uninit()`] followed by [`WriteChunkUninit::fill_from_iter()`].
//! Alternatively, mutable access to the (uninitialized) slots of the chunk can be obtained with
//! [`WriteChunkUninit::as_mut_slices()`], which requires writing some `unsafe` code.
//! To avoid that, [`Producer::write_chunk()`] can be used,
//! which initializes all slots with their [`Default`] value
//! and provides mutable access by means of [`WriteChunk::as_mut_slices()`].
//!
//! Multiple items at once can be moved out of the ring buffer by using
//! [`Consumer::read_chunk()`] and iterating over the returned [`ReadChunk`]
//! (or by explicitly calling [`ReadChunk::into_iter()`]).
//! Immutable access to the slots of the chunk can be obtained with [`ReadChunk::as_slices()`].
//!
//! If the item type `T` implements [`Copy`], the convenience functions
//! [`Producer::push_partial_slice()`], [`Producer::push_entire_slice()`],
//! [`Consumer::pop_partial_slice()`], [`Consumer::pop_entire_slice()`],
//! [`Consumer::pop_partial_slice_uninit()`]
//! and [`Consumer::pop_entire_slice_uninit()`] can be used.
//!
//! # Examples
//!
//! The following examples use a single thread for simplicity, but in a real application,
//! `producer` and `consumer` would of course live on different threads:
//!
//! If the trait bound `T: Copy` is satisfied,
//! the `push_*_slice()` and `pop_*_slice()` methods can be used.
//!
//! ```
//! use rtrb::RingBuffer;
//!
//! let (mut producer, mut consumer) = RingBuffer::new(4);
//!
//! let source = vec![1, 2, 3, 4, 5, 6];
//! let (pushed, remainder) = producer.push_partial_slice(&source);
//! assert_eq!(pushed, [1, 2, 3, 4]);
//! assert_eq!(remainder, [5, 6]);
//!
//! let mut destination = vec![0; 3];
//! consumer.pop_entire_slice(&mut destination).unwrap();
//! assert_eq!(destination, [1, 2, 3]);
//!
//! let (popped, remainder) = consumer.pop_partial_slice(&mut destination);
//! assert_eq!(popped, [4]);
//! assert_eq!(remainder, [2, 3]);
//! // The returned slices are mutable sub-slices into `destination`.
//! remainder[0] = 99;
//! assert_eq!(destination, [4, 99, 3]);
//! ```
//!
//! If this convenience interface is too limited (or if `T` is not `Copy`)
//! the more fundamental methods [`Producer::write_chunk()`],
//! [`Producer::write_chunk_uninit()`] and [`Consumer::read_chunk()`] can be used.
//!
//! ```
//! use rtrb::RingBuffer;
//!
//! let (mut producer, mut consumer) = RingBuffer::new(5);
//!
//! if let Ok(chunk) = producer.write_chunk_uninit(4) {
//!     chunk.fill_from_iter([10, 11, 12]);
//!     // Note that we requested 4 slots but we've only written to 3 of them!
//! } else {
//!     unreachable!();
//! }
//!
//! assert_eq!(producer.slots(), 2);
//! assert_eq!(consumer.slots(), 3);
//!
//! if let Ok(chunk) = consumer.read_chunk(2) {
//!     assert_eq!(chunk.into_iter().collect::<Vec<_>>(), [10, 11]);
//! } else {
//!     unreachable!();
//! }
//!
//! // One element is still in the queue:
//! assert_eq!(consumer.peek(), Ok(&12));
//!
//! let data = vec![20, 21, 22, 23];
//! // NB: write_chunk_uninit() could be used for possibly better performance:
//! if let Ok(mut chunk) = producer.write_chunk(4) {
//!     let (one, two) = chunk.as_mut_slices();
//!     let mid = one.len();
//!     one.copy_from_slice(&data[..mid]);
//!     two.copy_from_slice(&data[mid..]);
//!     chunk.commit_all();
//! } else {
//!     unreachable!();
//! }
//!
//! assert!(producer.is_full());
//! assert_eq!(consumer.slots(), 5);
//!
//! let mut v = Vec::<i32>::with_capacity(5);
//! if let Ok(chunk) = consumer.read_chunk(5) {
//!     let (one, two) = chunk.as_slices();
//!     v.extend(one);
//!     v.extend(two);
//!     chunk.commit_all();
//! } else {
//!     unreachable!();
//! }
//! assert_eq!(v, [12, 20, 21, 22, 23]);
//! assert!(consumer.is_empty());
//! ```
//!
//! The iterator API can be used to move items from one ring buffer to another:
//!
//! ```
//! use rtrb::{Consumer, Producer};
//!
//! fn move_items<T>(src: &mut Consumer<T>, dst: &mut Producer<T>) -> usize {
//!     let n = src.slots().min(dst.slots());
//!     dst.write_chunk_uninit(n).unwrap().fill_from_iter(src.read_chunk(n).unwrap())
//! }
//! ```
//!
//! Write as many slots as possible, given an iterator
//! (and return the number of written slots):
//!
//! ```
//! use rtrb::{Producer, chunks::ChunkError::TooFewSlots};
//!
//! fn push_from_iter<T, I>(queue: &mut Producer<T>, iter: I) -> usize
//! where
//!     T: Default,
//!     I: IntoIterator<Item = T>,
//! {
//!     let iter = iter.into_iter();
//!     let n = match iter.size_hint() {
//!         (_, None) => queue.slots(),
//!         (_, Some(n)) => n,
//!     };
//!     let chunk = match queue.write_chunk_uninit(n) {
//!         Ok(chunk) => chunk,
//!         // Remaining slots are returned, this will always succeed:
//!         Err(TooFewSlots(n)) => queue.write_chunk_uninit(n).unwrap(),
//!     };
//!     chunk.fill_from_iter(iter)
//! }
//! ```

use core::fmt;
use core::marker::PhantomData;
use core::mem::MaybeUninit;
use core::sync::atomic::Ordering;

use crate::{Consumer, CopyToUninit, Producer};

// This is used in the documentation.
#[allow(unused_imports)]
use crate::RingBuffer;

impl<T> Producer<T> {
    /// Returns `n` slots (initially containing their [`Default`] value) for writing.
    ///
    /// [`WriteChunk::as_mut_slices()`] provides mutable access to the slots.
    /// After writing to those slots, they explicitly have to be made available
    /// to be read by the [`Consumer`] by calling [`WriteChunk::commit()`]
    /// or [`WriteChunk::commit_all()`].
    ///
    /// For an alternative that does not require the trait bound [`Default`],
    /// see [`Producer::write_chunk_uninit()`].
    ///
    /// If items are supposed to be moved from an iterator into the ring buffer,
    /// [`Producer::write_chunk_uninit()`] followed by [`WriteChunkUninit::fill_from_iter()`]
    /// can be used.
    ///
    /// # Errors
    ///
    /// If not enough slots are available, an error
    /// (containing the number of available slots) is returned.
    /// Use [`Producer::slots()`] to obtain the number of available slots beforehand.
    ///
    /// # Examples
    ///
    /// See the documentation of the [`chunks`](crate::chunks#examples) module.
    pub fn write_chunk(&mut self, n: usize) -> Result<WriteChunk<'_, T>, ChunkError>
    where
        T: Default,
    {
        self.write_chunk_uninit(n).map(WriteChunk::from)
    }

    /// Returns `n` (uninitialized) slots for writing.
    ///
    /// [`WriteChunkUninit::as_mut_slices()`] provides mutable access
    /// to the uninitialized slots.
    /// After writing to those slots, they explicitly have to be made available
    /// to be read by the [`Consumer`] by calling [`WriteChunkUninit::commit()`]
    /// or [`WriteChunkUninit::commit_all()`].
    ///
    /// Alternatively, [`WriteChunkUninit::fill_from_iter()`] can be used
    /// to move items from an iterator into the available slots.
    /// All moved items are automatically made available to be read by the [`Consumer`].
    ///
    /// # Errors
    ///
    /// If not enough slots are available, an error
    /// (containing the number of available slots) is returned.
    /// Use [`Producer::slots()`] to obtain the number of available slots beforehand.
    ///
    /// # Safety
    ///
    /// This function itself is safe, as is [`WriteChunkUninit::fill_from_iter()`].
    /// However, when using [`WriteChunkUninit::as_mut_slices()`],
    /// the user has to make sure that the relevant slots have been initialized
    /// before calling [`WriteChunkUninit::commit()`] or [`WriteChunkUninit::commit_all()`].
    ///
    /// For a safe alternative that provides mutable slices of [`Default`]-initialized slots,
    /// see [`Producer::write_chunk()`].
    ///
    /// # Examples
    ///
    /// See the documentation of the [`chunks`](crate::chunks#examples) module.
    pub fn write_chunk_uninit(&mut self, n: usize) -> Result<WriteChunkUninit<'_, T>, ChunkError> {
        let tail = self.cached_tail.get();

        // Check if the queue has *possibly* not enough slots.
        if self.buffer.capacity - self.buffer.distance(self.cached_head.get(), tail) < n {
            // Refresh the head ...
            crate::vhook::point("rtrb.producer.head.load");
            let head = self.buffer.head.load(Ordering::Acquire);
            self.cached_head.set(head);

            // ... and check if there *really* are not enough slots.
            let slots = self.buffer.capacity - self.buffer.distance(head, tail);
            if slots < n {
                return Err(ChunkError::TooFewSlots(slots));
            }
        }
        let tail = self.buffer.collapse_position(tail);
        let first_len = n.min(self.buffer.capacity - tail);
        Ok(WriteChunkUninit {
            // SAFETY: tail has been updated to a valid position.
            first_ptr: unsafe { self.buffer.data_ptr.add(tail) },
            first_len,
            second_ptr: self.buffer.data_ptr,
            second_len: n - first_len,
            producer: self,
        })
    }
}

impl<T: Copy> Producer<T> {
    /// Copies as many items as possible from the given `slice` into the ring buffer.
    ///
    /// The written slots are automatically made available to be read by the [`Consumer`].
    ///
    /// Returns two sub-slices of `slice`:
    /// - The part that has been copied into the ring buffer (possibly empty).
    /// - The unused remainder (possibly empty).
    ///
    /// To copy an entire slice (and fail otherwise), [`Producer::push_entire_slice()`] can be used.
    ///
    /// # Examples
    ///
    /// ```
    /// use rtrb::Producer;
    ///
    /// fn push_at_least_one_element<'a>(
    ///     p: &mut Producer<i32>,
    ///     s: &'a [i32],
    /// ) -> Result<&'a [i32], &'a [i32]> {
    ///     match p.push_partial_slice(s) {
    ///         ([], remainder) => Err(remainder),
    ///         (_, remainder) => Ok(remainder),
    ///     }
    /// }
    ///
    /// fn block_while_pushing_entire_slice(p: &mut Producer<i32>, mut s: &[i32]) {
    ///     while let (_, remainder @ [_, ..]) = p.push_partial_slice(s) {
    ///         std::thread::yield_now();
    ///         s = remainder;
    ///     }
    /// }
    /// ```
    ///
    /// For more examples, see the documentation of the [`chunks`](crate::chunks#examples) module.
    #[must_use]
    pub fn push_partial_slice<'a>(&mut self, slice: &'a [T]) -> (&'a [T], &'a [T]) {
        let slots = if self.cached_slots() < slice.len() {
            slice.len().min(self.slots())
        } else {
            slice.len()
        };
        let (pushed, remainder) = slice.split_at(slots);
        // With MSRV 1.58, unwrap_unchecked() can be used.
        match self.push_entire_slice(pushed) {
            Ok(()) => {}
            // SAFETY: The requested slots are available.
            Err(_) => unsafe { core::hint::unreachable_unchecked() },
        };
        (pushed, remainder)
    }

    /// Copies all items from the given `slice` into the ring buffer.
    ///
    /// The written slots are automatically made available to be read by the [`Consumer`].
    ///
    /// To copy only into the available slots, [`Producer::push_partial_slice()`] can be used.
    ///
    /// # Errors
    ///
    /// If not enough free space is available in the ring buffer,
    /// a [`ChunkError`] with the available slots is returned.
    pub fn push_entire_slice(&mut self, slice: &[T]) -> Result<(), ChunkError> {
        let mut chunk = self.write_chunk_uninit(slice.len())?;
        let (one, two) = chunk.as_mut_slices();
        let mid = one.len();
        // NB: If slice.is_empty(), chunk will be empty as well and the following are no-ops:
        slice[..mid].copy_to_uninit(one);
        slice[mid..].copy_to_uninit(two);
        // SAFETY: All slots have been initialized
        unsafe { chunk.commit_all() };
        Ok(())
    }
}

impl<T> Consumer<T> {
    /// Returns `n` slots for reading.
    ///
    /// [`ReadChunk::as_slices()`] provides immutable access to the slots.
    /// After reading from those slots, they explicitly have to be made available
    /// to be written again by the [`Producer`] by calling [`ReadChunk::commit()`]
    /// or [`ReadChunk::commit_all()`].
    ///
    /// Alternatively, items can be moved out of the [`ReadChunk`] using iteration
    /// because it implements [`IntoIterator`]
    /// ([`ReadChunk::into_iter()`] can be used to explicitly turn it into an [`Iterator`]).
    /// All moved items are automatically made available to be written again by the [`Producer`].
    ///
    /// # Errors
    ///
    /// If not enough slots are available, an error
    /// (containing the number of available slots) is returned.
    /// Use [`Consumer::slots()`] to obtain the number of available slots beforehand.
    ///
    /// # Examples
    ///
    /// See the documentation of the [`chunks`](crate::chunks#examples) module.
    pub fn read_chunk(&mut self, n: usize) -> Result<ReadChunk<'_, T>, ChunkError> {
        let head = self.cached_head.get();

        // Check if the queue has *possibly* not enough slots.
        if self.buffer.distance(head, self.cached_tail.get()) < n {
            // Refresh the tail ...
            crate::vhook::point("rtrb.consumer.tail.load");
            let tail = self.buffer.tail.load(Ordering::Acquire);
            self.cached_tail.set(tail);

            // ... and check if there *really* are not enough slots.
            let slots = self.buffer.distance(head, tail);
            if slots < n {
                return Err(ChunkError::TooFewSlots(slots));
            }
        }

        let head = self.buffer.collapse_position(head);
        let first_len = n.min(self.buffer.capacity - head);
        Ok(ReadChunk {
            // SAFETY: head has been updated to a valid position.
            first_ptr: unsafe { self.buffer.data_ptr.add(head) },
            first_len,
            second_ptr: self.buffer.data_ptr,
            second_len: n - first_len,
            consumer: self,
        })
    }
}

impl<T: Copy> Consumer<T> {
    /// Copies as many items as possible from the ring buffer to the given `slice`.
    ///
    /// The copied slots are automatically made available to be written again by the [`Producer`].
    ///
    /// Returns two sub-slices of `slice`:
    /// - The part that has been filled with data from the ring buffer (possibly empty).
    /// - The unused remainder (possibly empty).
    ///
    /// To copy an entire slice (and fail otherwise), [`Consumer::pop_entire_slice()`] can be used.
    /// To copy into an uninitialized slice, [`Consumer::pop_partial_slice_uninit()`] can be used.
    ///
    /// # Examples
    ///
    /// ```
    /// use rtrb::Consumer;
    ///
    /// fn pop_at_least_one_element<'a>(
    ///     c: &mut Consumer<i32>,
    ///     s: &'a mut [i32],
    /// ) -> Result<&'a mut [i32], &'a mut [i32]> {
    ///     match c.pop_partial_slice(s) {
    ///         ([], remainder) => Err(remainder),
    ///         (_, remainder) => Ok(remainder),
    ///     }
    /// }
    ///
    /// fn block_while_popping_entire_slice(c: &mut Consumer<i32>, mut s: &mut [i32]) {
    ///     while let (_, remainder @ [_, ..]) = c.pop_partial_slice(s) {
    ///         std::thread::yield_now();
    ///         s = remainder;
    ///     }
    /// }
    /// ```
    ///
    /// For more examples, see the documentation of the [`chunks`](crate::chunks#examples) module.
    #[must_use]
    pub fn pop_partial_slice<'a>(&mut self, slice: &'a mut [T]) -> (&'a mut [T], &'a mut [T]) {
        // SAFETY: Transmuting &mut [T] to &mut [MaybeUninit<T>] is generally unsafe!
        // However, since we can guarantee that only valid T values will ever be written,
        // and the reference never leaves our control, it should be fine.
        let (popped, remainder) =
            unsafe { self.pop_partial_slice_uninit(&mut *(slice as *mut [_] as *mut _)) };
        // NB: This can be replaced by `assume_init_mut()` once stabilized:
        // SAFETY: `remainder` is a subslice of the original initialized buffer.
        (popped, unsafe { &mut *(remainder as *mut _ as *mut [_]) })
    }

    /// Copies as many items as possible from the ring buffer to the given uninitialized `slice`.
    ///
    /// The copied slots are automatically made available to be written again by the [`Producer`].
    ///
    /// Returns two sub-slices of `slice`:
    /// - The part that has been filled with data from the ring buffer (possibly empty).
    /// - The unused remainder (possibly empty).
    ///
    /// The first of the returned slices has been initialized,
    /// while the second one remains uninitialized.
    ///
    /// To copy an entire slice (and fail otherwise),
    /// [`Consumer::pop_entire_slice_uninit()`] can be used.
    /// To copy into an initialized slice, [`Consumer::pop_partial_slice()`] can be used.
    ///
    /// # Examples
    ///
    /// ```
    /// use std::mem::MaybeUninit;
    ///
    /// use rtrb::Consumer;
    ///
    /// fn pop_at_least_one_element_uninit<'a>(
    ///     c: &mut Consumer<i32>,
    ///     s: &'a mut [MaybeUninit<i32>],
    /// ) -> Result<&'a mut [MaybeUninit<i32>], &'a mut [MaybeUninit<i32>]> {
    ///     match c.pop_partial_slice_uninit(s) {
    ///         ([], remainder) => Err(remainder),
    ///         (_, remainder) => Ok(remainder),
    ///     }
    /// }
    ///
    /// fn block_while_popping_entire_slice_uninit(
    ///     c: &mut Consumer<i32>,
    ///     mut s: &mut [MaybeUninit<i32>],
    /// ) {
    ///     while let (_, remainder @ [_, ..]) = c.pop_partial_slice_uninit(s) {
    ///         std::thread::yield_now();
    ///         s = remainder;
    ///     }
    /// }
    /// ```
    ///
    /// Typically, we might get an uninitialized buffer via FFI,
    /// but in this example we are using the uninitialized part of a [`Vec`]:
    ///
    /// ```
    /// use std::mem::MaybeUninit;
    ///
    /// use rtrb::RingBuffer;
    ///
    /// let (mut producer, mut consumer) = RingBuffer::new(4);
    /// let (_, remainder) = producer.push_partial_slice(&[1, 2, 3]);
    /// assert!(remainder.is_empty());
    /// let mut buffer = Vec::with_capacity(5);
    /// let buffer_uninit = buffer.spare_capacity_mut();
    /// let (popped, remainder) = consumer.pop_partial_slice_uninit(buffer_uninit);
    /// assert_eq!(popped, [1, 2, 3]);
    /// // The returned slices are mutable ...
    /// popped[0] = -42;
    /// // ... but the second one is still uninitialized:
    /// remainder[0] = MaybeUninit::new(99);
    /// // All this happened in the uninitialized part of the buffer,
    /// // which is still "officially" empty:
    /// assert!(buffer.is_empty());
    /// // SAFETY: The first 4 elements have been initialized.
    /// unsafe {
    ///     buffer.set_len(4);
    /// }
    /// assert_eq!(buffer, [-42, 2, 3, 99]);
    /// ```
    #[inline]
    #[must_use]
    pub fn pop_partial_slice_uninit<'a>(
        &mut self,
        slice: &'a mut [MaybeUninit<T>],
    ) -> (&'a mut [T], &'a mut [MaybeUninit<T>]) {
        let slots = if self.cached_slots() < slice.len() {
            slice.len().min(self.slots())
        } else {
            slice.len()
        };
        let (buffer, remainder) = slice.split_at_mut(slots);
        // With MSRV 1.58, unwrap_unchecked() can be used.
        let popped = match self.pop_entire_slice_uninit(buffer) {
            Ok(popped) => popped,
            // SAFETY: The requested slots are available.
            Err(_) => unsafe { core::hint::unreachable_unchecked() },
        };
        (popped, remainder)
    }

    /// Copies as many items from the ring buffer as to fill the given `slice`.
    ///
    /// The copied slots are automatically made available to be written again by the [`Producer`].
    ///
    /// # Errors
    ///
    /// If not enough data is available in the ring buffer, no items are copied and
    /// a [`ChunkError`] with the available items is returned.
    ///
    /// To copy only the available slots, [`Consumer::pop_partial_slice()`] can be used.
    /// To copy into an uninitialized slice, [`Consumer::pop_entire_slice_uninit()`] can be used.
    pub fn pop_entire_slice(&mut self, slice: &mut [T]) -> Result<(), ChunkError> {
        // SAFETY: Transmuting &mut [T] to &mut [MaybeUninit<T>] is generally unsafe!
        // However, since we can guarantee that only valid T values will ever be written,
        // and the reference never leaves our control, it should be fine.
        let _ = unsafe { self.pop_entire_slice_uninit(&mut *(slice as *mut [_] as *mut _))? };
        Ok(())
    }

    /// Copies as many items from the ring buffer as to fill the given uninitialized `slice`.
    ///
    /// The copied slots are automatically made available to be written again by the [`Producer`].
    ///
    /// Returns the given slice, but now initialized.
    ///
    /// # Errors
    ///
    /// If not enough data is available in the ring buffer, no items are copied and
    /// a [`ChunkError`] with the available items is returned.
    ///
    /// To copy only the available slots, [`Consumer::pop_partial_slice_uninit()`] can be used.
    /// To copy into an initialized slice, [`Consumer::pop_entire_slice()`] can be used.
    pub fn pop_entire_slice_uninit<'a>(
        &mut self,
        slice: &'a mut [MaybeUninit<T>],
    ) -> Result<&'a mut [T], ChunkError> {
        let chunk = self.read_chunk(slice.len())?;
        let (one, two) = chunk.as_slices();
        let mid = one.len();
        // NB: If slice.is_empty(), chunk will be empty as well and the following are no-ops:
        one.copy_to_uninit(&mut slice[..mid]);
        two.copy_to_uninit(&mut slice[mid..]);
        chunk.commit_all();
        // NB: This can be replaced by `assume_init_mut()` once stabilized:
        // SAFETY: The entire `slice` has been initialized above.
        Ok(unsafe { &mut *(slice as *mut _ as *mut [_]) })
    }
}

/// Structure for writing into multiple ([`Default`]-initialized) slots in one go.
///
/// This is returned from [`Producer::write_chunk()`].
///
/// To obtain uninitialized slots, use [`Producer::write_chunk_uninit()`] instead,
/// which also allows moving items from an iterator into the ring buffer
/// by means of [`WriteChunkUninit::fill_from_iter()`].
#[derive(Debug, PartialEq, Eq)]
pub struct WriteChunk<'a, T>(Option<WriteChunkUninit<'a, T>>, PhantomData<T>);

impl<T> Drop for WriteChunk<'_, T> {
    fn drop(&mut self) {
        // NB: If `commit()` or `commit_all()` has been called, `self.0` is `None`.
        if let Some(mut chunk) = self.0.take() {
            // No part of the chunk has been committed, all slots are dropped.
            // SAFETY: All slots have been initialized in From::from().
            unsafe { chunk.drop_suffix(0) };
        }
    }
}

impl<'a, T> From<WriteChunkUninit<'a, T>> for WriteChunk<'a, T>
where
    T: Default,
{
    /// Fills all slots with the [`Default`] value.
    fn from(chunk: WriteChunkUninit<'a, T>) -> Self {
        for i in 0..chunk.first_len {
            // SAFETY: i is in a valid range.
            unsafe { chunk.first_ptr.add(i).write(Default::default()) };
        }
        for i in 0..chunk.second_len {
            // SAFETY: i is in a valid range.
            unsafe { chunk.second_ptr.add(i).write(Default::default()) };
        }
        WriteChunk(Some(chunk), PhantomData)
    }
}

impl<T> WriteChunk<'_, T>
where
    T: Default,
{
    /// Returns two slices for writing to the requested slots.
    ///
    /// All slots are initially filled with their [`Default`] value.
    ///
    /// The first slice can only be empty if `0` slots have been requested.
    /// If the first slice contains all requested slots, the second one is empty.
    ///
    /// After writing to the slots, they are *not* automatically made available
    /// to be read by the [`Consumer`].
    /// This has to be explicitly done by calling [`commit()`](WriteChunk::commit)
    /// or [`commit_all()`](WriteChunk::commit_all).
    /// If items are written but *not* committed afterwards,
    /// they will *not* become available for reading and
    /// they will eventually be dropped (if `T` implements [`Drop`]).
    pub fn as_mut_slices(&mut self) -> (&mut [T], &mut [T]) {
        // self.0 is always Some(chunk).
        let chunk = self.0.as_ref().unwrap();
        // SAFETY: The pointers and lengths have been computed correctly in write_chunk_uninit()
        // and all slots have been initialized in From::from().
        unsafe {
            (
                core::slice::from_raw_parts_mut(chunk.first_ptr, chunk.first_len),
                core::slice::from_raw_parts_mut(chunk.second_ptr, chunk.second_len),
            )
        }
    }

    /// Makes the first `n` slots of the chunk available for reading.
    ///
    /// The rest of the chunk is dropped.
    ///
    /// # Panics
    ///
    /// Panics if `n` is greater than the number of slots in the chunk.
    pub fn commit(mut self, n: usize) {
        // self.0 is always Some(chunk).
        let mut chunk = self.0.take().unwrap();
        // SAFETY: All slots have been initialized in From::from().
        unsafe {
            // Slots at index `n` and higher are dropped ...
            chunk.drop_suffix(n);
            // ... everything below `n` is committed.
            chunk.commit(n);
        }
        // `self` is dropped here, with `self.0` being set to `None`.
    }

    /// Makes the whole chunk available for reading.
    pub fn commit_all(mut self) {
        // self.0 is always Some(chunk).
        let chunk = self.0.take().unwrap();
        // SAFETY: All slots have been initialized in From::from().
        unsafe { chunk.commit_all() };
        // `self` is dropped here, with `self.0` being set to `None`.
    }

    /// Returns the number of slots in the chunk.
    #[must_use]
    pub fn len(&self) -> usize {
        // self.0 is always Some(chunk).
        self.0.as_ref().unwrap().len()
    }

    /// Returns `true` if the chunk contains no slots.
    #[must_use]
    pub fn is_empty(&self) -> bool {
        // self.0 is always Some(chunk).
        self.0.as_ref().unwrap().is_empty()
    }
}

/// Structure for writing into multiple (uninitialized) slots in one go.
///
/// This is returned from [`Producer::write_chunk_uninit()`].
#[derive(Debug, PartialEq, Eq)]
pub struct WriteChunkUninit<'a, T> {
    first_ptr: *mut T,
    first_len: usize,
    second_ptr: *mut T,
    second_len: usize,
    producer: &'a Producer<T>,
}

// SAFETY: WriteChunkUninit only exists while a unique reference to the Producer is held.
// It is therefore safe to move it to another thread.
unsafe impl<T: Send> Send for WriteChunkUninit<'_, T> {}

impl<T> WriteChunkUninit<'_, T> {
    /// Returns two slices for writing to the requested slots.
    ///
    /// The first slice can only be empty if `0` slots have been requested.
    /// If the first slice contains all requested slots, the second one is empty.
    ///
    /// The extension trait [`CopyToUninit`] can be used to safely copy data into those slices.
    ///
    /// After writing to the slots, they are *not* automatically made available
    /// to be read by the [`Consumer`].
    /// This has to be explicitly done by calling [`commit()`](WriteChunkUninit::commit)
    /// or [`commit_all()`](WriteChunkUninit::commit_all).
    /// If items are written but *not* committed afterwards,
    /// they will *not* become available for reading and
    /// they will be leaked (which is only relevant if `T` implements [`Drop`]).
    pub fn as_mut_slices(&mut self) -> (&mut [MaybeUninit<T>], &mut [MaybeUninit<T>]) {
        // SAFETY: The pointers and lengths have been computed correctly in write_chunk_uninit().
        unsafe {
            (
                core::slice::from_raw_parts_mut(self.first_ptr.cast(), self.first_len),
                core::slice::from_raw_parts_mut(self.second_ptr.cast(), self.second_len),
            )
        }
    }

    /// Makes the first `n` slots of the chunk available for reading.
    ///
    /// # Panics
    ///
    /// Panics if `n` is greater than the number of slots in the chunk.
    ///
    /// # Safety
    ///
    /// The caller must make sure that the first `n` elements have been initialized.
    pub unsafe fn commit(self, n: usize) {
        assert!(n <= self.len(), "cannot commit more than chunk size");
        // SAFETY: Delegated to the caller.
        unsafe { self.commit_unchecked(n) };
    }

    /// Makes the whole chunk available for reading.
    ///
    /// # Safety
    ///
    /// The caller must make sure that all elements have been initialized.
    pub unsafe fn commit_all(self) {
        let slots = self.len();
        // SAFETY: Delegated to the caller.
        unsafe { self.commit_unchecked(slots) };
    }

    unsafe fn commit_unchecked(self, n: usize) -> usize {
        let p = self.producer;
        let tail = p.buffer.increment(p.cached_tail.get(), n);
        crate::vhook::point("rtrb.chunk.tail.store");
        p.buffer.tail.store(tail, Ordering::Release);
        p.cached_tail.set(tail);
        n
    }

    /// Moves items from an iterator into the (uninitialized) slots of the chunk.
    ///
    /// The number of moved items is returned.
    ///
    /// All moved items are automatically made availabe to be read by the [`Consumer`].
    ///
    /// # Examples
    ///
    /// If the iterator contains too few items, only a part of the chunk
    /// is made available for reading:
    ///
    /// ```
    /// use rtrb::{RingBuffer, PopError};
    ///
    /// let (mut p, mut c) = RingBuffer::new(4);
    ///
    /// if let Ok(chunk) = p.write_chunk_uninit(3) {
    ///     assert_eq!(chunk.fill_from_iter([10, 20]), 2);
    /// } else {
    ///     unreachable!();
    /// }
    /// assert_eq!(p.slots(), 2);
    /// assert_eq!(c.pop(), Ok(10));
    /// assert_eq!(c.pop(), Ok(20));
    /// assert_eq!(c.pop(), Err(PopError::Empty));
    /// ```
    ///
    /// If the chunk size is too small, some items may remain in the iterator.
    /// To be able to keep using the iterator after the call,
    /// `&mut` (or [`Iterator::by_ref()`]) can be used.
    ///
    /// ```
    /// use rtrb::{RingBuffer, PopError};
    ///
    /// let (mut p, mut c) = RingBuffer::new(4);
    ///
    /// let mut it = vec![10, 20, 30].into_iter();
    /// if let Ok(chunk) = p.write_chunk_uninit(2) {
    ///     assert_eq!(chunk.fill_from_iter(&mut it), 2);
    /// } else {
    ///     unreachable!();
    /// }
    /// assert_eq!(c.pop(), Ok(10));
    /// assert_eq!(c.pop(), Ok(20));
    /// assert_eq!(c.pop(), Err(PopError::Empty));
    /// assert_eq!(it.next(), Some(30));
    /// ```
    pub fn fill_from_iter<I>(self, iter: I) -> usize
    where
        I: IntoIterator<Item = T>,
    {
        let mut iter = iter.into_iter();
        let mut iterated = 0;
        'outer: for &(ptr, len) in &[
            (self.first_ptr, self.first_len),
            (self.second_ptr, self.second_len),
        ] {
            for i in 0..len {
                match iter.next() {
                    Some(item) => {
                        // SAFETY: It is allowed to write to this memory slot
                        unsafe { ptr.add(i).write(item) };
                        iterated += 1;
                    }
                    None => break 'outer,
                }
            }
        }
        // SAFETY: iterated slots have been initialized above
        unsafe { self.commit_unchecked(iterated) }
    }

    /// Returns the number of slots in the chunk.
    #[must_use]
    pub fn len(&self) -> usize {
        self.first_len + self.second_len
    }

    /// Returns `true` if the chunk contains no slots.
    #[must_use]
    pub fn is_empty(&self) -> bool {
        self.first_len == 0
    }

    /// Drops all elements starting from index `n`.
    ///
    /// All of those slots must be initialized.
    unsafe fn drop_suffix(&mut self, n: usize) {
        // NB: If n >= self.len(), the loops are not entered.
        for i in n..self.first_len {
            // SAFETY: The caller must make sure that all slots are initialized.
            unsafe { self.first_ptr.add(i).drop_in_place() };
        }
        for i in n.saturating_sub(self.first_len)..self.second_len {
            // SAFETY: The caller must make sure that all slots are initialized.
            unsafe { self.second_ptr.add(i).drop_in_place() };
        }
    }
}

/// Structure for reading from multiple slots in one go.
///
/// This is returned from [`Consumer::read_chunk()`].
#[derive(Debug, PartialEq, Eq)]
pub struct ReadChunk<'a, T> {
    // Must be "mut" for drop_in_place()
    first_ptr: *mut T,
    first_len: usize,
    // Must be "mut" for drop_in_place()
    second_ptr: *mut T,
    second_len: usize,
    consumer: &'a Consumer<T>,
}

// SAFETY: ReadChunk only exists while a unique reference to the Consumer is held.
// It is therefore safe to move it to another thread.
unsafe impl<T: Send> Send for ReadChunk<'_, T> {}

impl<T> ReadChunk<'_, T> {
    /// Returns two slices for reading from the requested slots.
    ///
    /// The first slice can only be empty if `0` slots have been requested.
    /// If the first slice contains all requested slots, the second one is empty.
    ///
    /// The provided slots are *not* automatically made available
    /// to be written again by the [`Producer`].
    /// This has to be explicitly done by calling [`commit()`](ReadChunk::commit)
    /// or [`commit_all()`](ReadChunk::commit_all).
    /// Note that this runs the destructor of the committed items (if `T` implements [`Drop`]).
    /// You can "peek" at the contained values by simply not calling any of the "commit" methods.
    #[must_use]
    pub fn as_slices(&self) -> (&[T], &[T]) {
        // SAFETY: The pointers and lengths have been computed correctly in read_chunk().
        unsafe {
            (
                core::slice::from_raw_parts(self.first_ptr, self.first_len),
                core::slice::from_raw_parts(self.second_ptr, self.second_len),
            )
        }
    }

    /// Returns two mutable slices for reading from the requested slots.
    ///
    /// This has the same semantics as [`as_slices()`](ReadChunk::as_slices),
    /// except that it returns mutable slices and requires a mutable reference
    /// to the chunk.
    ///
    /// In the vast majority of cases, mutable access is not required when
    /// reading data and the immutable version should be preferred. However,
    /// there are some scenarios where it might be desirable to perform
    /// operations on the data in-place without copying it to a separate buffer
    /// (e.g. streaming decryption), in which case this version can be used.
    #[must_use]
    pub fn as_mut_slices(&mut self) -> (&mut [T], &mut [T]) {
        // SAFETY: The pointers and lengths have been computed correctly in read_chunk().
        unsafe {
            (
                core::slice::from_raw_parts_mut(self.first_ptr, self.first_len),
                core::slice::from_raw_parts_mut(self.second_ptr, self.second_len),
            )
        }
    }

    /// Drops the first `n` slots of the chunk, making the space available for writing again.
    ///
    /// # Panics
    ///
    /// Panics if `n` is greater than the number of slots in the chunk.
    ///
    /// # Examples
    ///
    /// The following example shows that items are dropped when "committed"
    /// (which is only relevant if `T` implements [`Drop`]).
    ///
    /// ```
    /// use rtrb::RingBuffer;
    ///
    /// // Static variable to count all drop() invocations
    /// static mut DROP_COUNT: i32 = 0;
    /// #[derive(Debug)]
    /// struct Thing;
    /// impl Drop for Thing {
    ///     fn drop(&mut self) { unsafe { DROP_COUNT += 1; } }
    /// }
    ///
    /// // Scope to limit lifetime of ring buffer
    /// {
    ///     let (mut p, mut c) = RingBuffer::new(2);
    ///
    ///     assert!(p.push(Thing).is_ok()); // 1
    ///     assert!(p.push(Thing).is_ok()); // 2
    ///     if let Ok(thing) = c.pop() {
    ///         // "thing" has been *moved* out of the queue but not yet dropped
    ///         assert_eq!(unsafe { DROP_COUNT }, 0);
    ///     } else {
    ///         unreachable!();
    ///     }
    ///     // First Thing has been dropped when "thing" went out of scope:
    ///     assert_eq!(unsafe { DROP_COUNT }, 1);
    ///     assert!(p.push(Thing).is_ok()); // 3
    ///
    ///     if let Ok(chunk) = c.read_chunk(2) {
    ///         assert_eq!(chunk.len(), 2);
    ///         assert_eq!(unsafe { DROP_COUNT }, 1);
    ///         chunk.commit(1); // Drops only one of the two Things
    ///         assert_eq!(unsafe { DROP_COUNT }, 2);
    ///     } else {
    ///         unreachable!();
    ///     }
    ///     // The last Thing is still in the queue ...
    ///     assert_eq!(unsafe { DROP_COUNT }, 2);
    /// }
    /// // ... and it is dropped when the ring buffer goes out of scope:
    /// assert_eq!(unsafe { DROP_COUNT }, 3);
    /// ```
    pub fn commit(self, n: usize) {
        assert!(n <= self.len(), "cannot commit more than chunk size");
        // SAFETY: self.len() initialized elements have been obtained in read_chunk().
        unsafe { self.commit_unchecked(n) };
    }

    /// Drops all slots of the chunk, making the space available for writing again.
    pub fn commit_all(self) {
        let slots = self.len();
        // SAFETY: self.len() initialized elements have been obtained in read_chunk().
        unsafe { self.commit_unchecked(slots) };
    }

    unsafe fn commit_unchecked(self, n: usize) -> usize {
        struct PanicGuard<'a, T> {
            consumer: &'a Consumer<T>,
            dropped: usize,
        }

        impl<T> Drop for PanicGuard<'_, T> {
            fn drop(&mut self) {
                let c = self.consumer;
                // Mark dropped slots as read, even if their drop() panicked.
                let head = c.buffer.increment(c.cached_head.get(), self.dropped);
                crate::vhook::point("rtrb.chunk.head.store");
                c.buffer.head.store(head, Ordering::Release);
                c.cached_head.set(head);
            }
        }

        let mut guard = PanicGuard {
            consumer: self.consumer,
            dropped: 0,
        };

        let first_len = self.first_len.min(n);
        for i in 0..first_len {
            // Incrementing before drop attempt, because if it panics we should consider it dropped.
            guard.dropped += 1;
            // SAFETY: The caller must make sure that there are n initialized elements.
            unsafe { self.first_ptr.add(i).drop_in_place() };
        }
        let second_len = self.second_len.min(n - first_len);
        for i in 0..second_len {
            // Incrementing before drop attempt, because if it panics we should consider it dropped.
            guard.dropped += 1;
            // SAFETY: The caller must make sure that there are n initialized elements.
            unsafe { self.second_ptr.add(i).drop_in_place() };
        }
        guard.dropped
        // `head` is incremented when `guard` goes out of scope.
    }

    /// Returns the number of slots in the chunk.
    #[must_use]
    pub fn len(&self) -> usize {
        self.first_len + self.second_len
    }

    /// Returns `true` if the chunk contains no slots.
    #[must_use]
    pub fn is_empty(&self) -> bool {
        self.first_len == 0
    }
}

impl<'a, T> IntoIterator for ReadChunk<'a, T> {
    type Item = T;
    type IntoIter = ReadChunkIntoIter<'a, T>;

    /// Turns a [`ReadChunk`] into an iterator.
    ///
    /// When the iterator is dropped, all iterated slots are made available for writing again.
    /// Non-iterated items remain in the ring buffer.
    fn into_iter(self) -> Self::IntoIter {
        Self::IntoIter {
            chunk: self,
            iterated: 0,
        }
    }
}

/// An iterator that moves out of a [`ReadChunk`].
///
/// This `struct` is created by the [`into_iter()`](ReadChunk::into_iter) method
/// on [`ReadChunk`] (provided by the [`IntoIterator`] trait).
///
/// When this `struct` is dropped, the iterated slots are made available for writing again.
/// Non-iterated items remain in the ring buffer.
#[derive(Debug)]
pub struct ReadChunkIntoIter<'a, T> {
    chunk: ReadChunk<'a, T>,
    iterated: usize,
}

impl<T> ReadChunkIntoIter<'_, T> {
    /// Returns the number of items consumed from this iterator.
    ///
    /// # Examples
    ///
    /// ```
    /// let (mut tx, mut rx) = rtrb::RingBuffer::new(10);
    ///
    /// for i in 0..10 {
    ///     tx.push(i).unwrap();
    /// }
    ///
    /// let mut chunk = rx.read_chunk(10).unwrap();
    /// let mut iter = chunk.into_iter();
    ///
    /// assert_eq!(iter.iterated(), 0);
    ///
    /// for _ in iter.by_ref().take(4) {}
    ///
    /// assert_eq!(iter.iterated(), 4);
    ///
    /// for _ in iter.by_ref() {}
    ///
    /// assert_eq!(iter.iterated(), 10);
    /// ```
    #[inline]
    pub fn iterated(&self) -> usize {
        self.iterated
    }
}

impl<T> Drop for ReadChunkIntoIter<'_, T> {
    /// Makes all iterated slots available for writing again.
    ///
    /// Non-iterated items remain in the ring buffer and are *not* dropped.
    fn drop(&mut self) {
        let c = &self.chunk.consumer;
        let head = c.buffer.increment(c.cached_head.get(), self.iterated);
        crate::vhook::point("rtrb.chunk.head.store");
        c.buffer.head.store(head, Ordering::Release);
        c.cached_head.set(head);
    }
}

impl<T> Iterator for ReadChunkIntoIter<'_, T> {
    type Item = T;

    #[inline]
    fn next(&mut self) -> Option<Self::Item> {
        let ptr = if self.iterated < self.chunk.first_len {
            // SAFETY: first_len is valid.
            unsafe { self.chunk.first_ptr.add(self.iterated) }
        } else if self.iterated < self.chunk.first_len + self.chunk.second_len {
            // SAFETY: first_len and second_len are valid.
            unsafe {
                self.chunk
                    .second_ptr
                    .add(self.iterated - self.chunk.first_len)
            }
        } else {
            return None;
        };
        self.iterated += 1;
        // SAFETY: ptr points to an initialized slot.
        Some(unsafe { ptr.read() })
    }

    #[inline]
    fn size_hint(&self) -> (usize, Option<usize>) {
        let remaining = self.chunk.first_len + self.chunk.second_len - self.iterated;
        (remaining, Some(remaining))
    }
}

impl<T> ExactSizeIterator for ReadChunkIntoIter<'_, T> {}

impl<T> core::iter::FusedIterator for ReadChunkIntoIter<'_, T> {}

#[cfg(feature = "std")]
impl std::io::Write for Producer<u8> {
    #[inline]
    fn write(&mut self, buf: &[u8]) -> std::io::Result<usize> {
        if buf.is_empty() {
            return Ok(0);
        }
        match self.push_partial_slice(buf) {
            ([], _) => Err(std::io::ErrorKind::WouldBlock.into()),
            (pushed, _) => Ok(pushed.len()),
        }
    }

    #[inline]
    fn flush(&mut self) -> std::io::Result<()> {
        // Nothing to do here.
        Ok(())
    }
}

#[cfg(feature = "std")]
impl std::io::Read for Consumer<u8> {
    #[inline]
    fn read(&mut self, buf: &mut [u8]) -> std::io::Result<usize> {
        if buf.is_empty() {
            return Ok(0);
        }
        match self.pop_partial_slice(buf) {
            ([], _) => Err(std::io::ErrorKind::WouldBlock.into()),
            (popped, _) => Ok(popped.len()),
        }
    }
}

/// Error type for [`Consumer::read_chunk()`], [`Consumer::pop_entire_slice()`],
/// [`Consumer::pop_entire_slice_uninit()`], [`Producer::write_chunk()`],
/// [`Producer::write_chunk_uninit()`] and [`Producer::push_entire_slice()`].
#[derive(Debug, Copy, Clone, PartialEq, Eq)]
pub enum ChunkError {
    /// Fewer than the requested number of slots were available.
    ///
    /// Contains the number of slots that were available.
    TooFewSlots(usize),
}

#[cfg(feature = "std")]
impl std::error::Error for ChunkError {}

impl fmt::Display for ChunkError {
    fn fmt(&self, f: &mut fmt::Formatter<'_>) -> fmt::Result {
        match self {
            ChunkError::TooFewSlots(n) => {
                alloc::format!("only {} slots available in ring buffer", n).fmt(f)
            }
        }
    }
}
