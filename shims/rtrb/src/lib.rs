//! A realtime-safe single-producer single-consumer (SPSC) ring buffer.
//!
//! A [`RingBuffer`] consists of two parts:
//! a [`Producer`] for writing into the ring buffer and
//! a [`Consumer`] for reading from the ring buffer.
//!
//! A fixed-capacity buffer is allocated on construction.
//! After that, no more memory is allocated (unless the type `T` does that internally).
//! Reading from and writing into the ring buffer is *lock-free* and *wait-free*.
//! All reading and writing functions return immediately.
//! Attempts to write to a full buffer return an error;
//! values inside the buffer are *not* overwritten.
//! Attempts to read from an empty buffer return an error as well.
//! Only a single thread can write into the ring buffer and a single thread
//! (typically a different one) can read from the ring buffer.
//! If the queue is empty, there is no way for the reading thread to wait
//! for new data, other than trying repeatedly until reading succeeds.
//! Similarly, if the queue is full, there is no way for the writing thread
//! to wait for newly available space to write to, other than trying repeatedly.
//!
//! # Examples
//!
//! Moving single elements into and out of a queue with
//! [`Producer::push()`] and [`Consumer::pop()`], respectively:
//!
//! ```
//! use rtrb::{RingBuffer, PushError, PopError};
//!
//! let (mut producer, mut consumer) = RingBuffer::new(2);
//!
//! assert_eq!(producer.push(10), Ok(()));
//! assert_eq!(producer.push(20), Ok(()));
//! assert_eq!(producer.push(30), Err(PushError::Full(30)));
//!
//! std::thread::spawn(move || {
//!     assert_eq!(consumer.pop(), Ok(10));
//!     assert_eq!(consumer.pop(), Ok(20));
//!     assert_eq!(consumer.pop(), Err(PopError::Empty));
//! }).join().unwrap();
//! ```
//!
//! See the documentation of the [`chunks#examples`] module
//! for examples that write/read multiple items at once.
//! See also:
//!
//!   * [`Producer::write_chunk()`]
//!   * [`Producer::write_chunk_uninit()`]
//!   * [`Producer::push_partial_slice()`] (if `T: Copy`)
//!   * [`Producer::push_entire_slice()`] (if `T: Copy`)
//!
//!   * [`Consumer::read_chunk()`]
//!   * [`Consumer::pop_partial_slice()`] (if `T: Copy`)
//!   * [`Consumer::pop_partial_slice_uninit()`] (if `T: Copy`)
//!   * [`Consumer::pop_entire_slice()`] (if `T: Copy`)
//!   * [`Consumer::pop_entire_slice_uninit()`] (if `T: Copy`)
#![doc(
    html_favicon_url = "https://raw.githubusercontent.com/mgeier/rtrb/refs/heads/main/favicon.svg"
)]
#![doc(
    html_logo_url = "https://raw.githubusercontent.com/mgeier/rtrb/refs/heads/main/rtrb-logo.svg"
)]
#![cfg_attr(not(feature = "std"), no_std)]
#![warn(rust_2018_idioms)]
#![deny(missing_docs, missing_debug_implementations)]
#![deny(unsafe_op_in_unsafe_fn)]
#![warn(clippy::undocumented_unsafe_blocks, clippy::unnecessary_safety_comment)]

extern crate alloc;

use alloc::sync::Arc;
use alloc::vec::Vec;
use core::cell::Cell;
use core::fmt;
use core::marker::PhantomData;
use core::mem::{ManuallyDrop, MaybeUninit};
use core::sync::atomic::{AtomicUsize, Ordering};

#[allow(dead_code, clippy::undocumented_unsafe_blocks)]
mod cache_padded;
use cache_padded::CachePadded;

pub mod chunks;

// This is used in the documentation.
#[allow(unused_imports)]
use chunks::WriteChunkUninit;

/// A bounded single-producer single-consumer (SPSC) queue.
///
/// Elements can be written with a [`Producer`] and read with a [`Consumer`],
/// both of which can be obtained with [`RingBuffer::new()`].
///
/// *See also the [crate-level documentation](crate).*
#[derive(Debug)]
pub struct RingBuffer<T> {
    /// The head of the queue.
    ///
    /// This integer is in range `0 .. 2 * capacity`.
    head: CachePadded<AtomicUsize>,

    /// The tail of the queue.
    ///
    /// This integer is in range `0 .. 2 * capacity`.
    tail: CachePadded<AtomicUsize>,

    /// The buffer holding slots.
    data_ptr: *mut T,

    /// The queue capacity.
    capacity: usize,

    /// Indicates that dropping a `RingBuffer<T>` may drop elements of type `T`.
    _marker: PhantomData<T>,
}

impl<T> RingBuffer<T> {
    /// Creates a `RingBuffer` with the given `capacity` and returns [`Producer`] and [`Consumer`].
    ///
    /// # Examples
    ///
    /// ```
    /// use rtrb::RingBuffer;
    ///
    /// let (producer, consumer) = RingBuffer::<f32>::new(100);
    /// ```
    ///
    /// Specifying an explicit type with the [turbofish](https://turbo.fish/)
    /// is is only necessary if it cannot be deduced by the compiler.
    ///
    /// ```
    /// use rtrb::RingBuffer;
    ///
    /// let (mut producer, consumer) = RingBuffer::new(100);
    /// assert_eq!(producer.push(0.0f32), Ok(()));
    /// ```
    #[allow(clippy::new_ret_no_self)]
    #[must_use]
    pub fn new(capacity: usize) -> (Producer<T>, Consumer<T>) {
        let buffer = Arc::new(RingBuffer {
            head: CachePadded::new(AtomicUsize::new(0)),
            tail: CachePadded::new(AtomicUsize::new(0)),
            data_ptr: ManuallyDrop::new(Vec::with_capacity(capacity)).as_mut_ptr(),
            capacity,
            _marker: PhantomData,
        });
        let p = Producer {
            buffer: buffer.clone(),
            cached_head: Cell::new(0),
            cached_tail: Cell::new(0),
        };
        let c = Consumer {
            buffer,
            cached_head: Cell::new(0),
            cached_tail: Cell::new(0),
        };
        (p, c)
    }

    /// Returns the capacity of the queue.
    ///
    /// # Examples
    ///
    /// ```
    /// use rtrb::RingBuffer;
    ///
    /// let (producer, consumer) = RingBuffer::<f32>::new(100);
    /// assert_eq!(producer.buffer().capacity(), 100);
    /// assert_eq!(consumer.buffer().capacity(), 100);
    /// // Both producer and consumer of course refer to the same ring buffer:
    /// assert_eq!(producer.buffer(), consumer.buffer());
    /// ```
    pub fn capacity(&self) -> usize {
        self.capacity
    }

    /// Wraps a position from the range `0 .. 2 * capacity` to `0 .. capacity`.
    fn collapse_position(&self, pos: usize) -> usize {
        debug_assert!(pos == 0 || pos < 2 * self.capacity);
        if pos < self.capacity {
            pos
        } else {
            pos - self.capacity
        }
    }

    /// Returns a pointer to the slot at position `pos`.
    ///
    /// If `pos == 0 && capacity == 0`, the returned pointer must not be dereferenced!
    unsafe fn slot_ptr(&self, pos: usize) -> *mut T {
        debug_assert!(pos == 0 || pos < 2 * self.capacity);
        let pos = self.collapse_position(pos);
        // SAFETY: The caller must ensure a valid pos.
        unsafe { self.data_ptr.add(pos) }
    }

    /// Increments a position by going `n` slots forward.
    fn increment(&self, pos: usize, n: usize) -> usize {
        debug_assert!(pos == 0 || pos < 2 * self.capacity);
        debug_assert!(n <= self.capacity);
        let threshold = 2 * self.capacity - n;
        if pos < threshold {
            pos + n
        } else {
            pos - threshold
        }
    }

    /// Increments a position by going one slot forward.
    ///
    /// This is more efficient than self.increment(..., 1).
    fn increment1(&self, pos: usize) -> usize {
        debug_assert_ne!(self.capacity, 0);
        debug_assert!(pos < 2 * self.capacity);
        if pos < 2 * self.capacity - 1 {
            pos + 1
        } else {
            0
        }
    }

    /// Returns the distance between two positions.
    fn distance(&self, a: usize, b: usize) -> usize {
        debug_assert!(a == 0 || a < 2 * self.capacity);
        debug_assert!(b == 0 || b < 2 * self.capacity);
        if a <= b {
            b - a
        } else {
            2 * self.capacity - a + b
        }
    }
}

impl<T> Drop for RingBuffer<T> {
    /// Drops all non-empty slots.
    fn drop(&mut self) {
        let mut head = self.head.load(Ordering::Relaxed);
        let tail = self.tail.load(Ordering::Relaxed);

        // Loop over all slots that hold a value and drop them.
        while head != tail {
            // SAFETY: All slots between head and tail have been initialized.
            unsafe { self.slot_ptr(head).drop_in_place() };
            head = self.increment1(head);
        }

        // Finally, deallocate the buffer, but don't run any destructors.
        // SAFETY: data_ptr and capacity are still valid from the original initialization.
        unsafe { Vec::from_raw_parts(self.data_ptr, 0, self.capacity) };
    }
}

impl<T> PartialEq for RingBuffer<T> {
    /// This method tests for `self` and `other` values to be equal, and is used by `==`.
    ///
    /// # Examples
    ///
    /// ```
    /// use rtrb::RingBuffer;
    ///
    /// let (p1, c1) = RingBuffer::<f32>::new(1000);
    /// assert_eq!(p1.buffer(), c1.buffer());
    ///
    /// let (p2, c2) = RingBuffer::<f32>::new(1000);
    /// assert_ne!(p1.buffer(), p2.buffer());
    /// ```
    fn eq(&self, other: &Self) -> bool {
        core::ptr::eq(self, other)
    }
}

impl<T> Eq for RingBuffer<T> {}

/// The producer side of a [`RingBuffer`].
///
/// Can be moved between threads,
/// but references from different threads are not allowed
/// (i.e. it is [`Send`] but not [`Sync`]).
///
/// Can only be created with [`RingBuffer::new()`]
/// (together with its counterpart, the [`Consumer`]).
///
/// Individual elements can be moved into the ring buffer with [`Producer::push()`],
/// multiple elements at once can be written with [`Producer::write_chunk()`],
/// [`Producer::write_chunk_uninit()`] and [`Producer::push_partial_slice()`].
///
/// The number of free slots currently available for writing can be obtained with
/// [`Producer::slots()`].
///
/// When the `Producer` is dropped, [`Consumer::is_abandoned()`] will return `true`.
/// This can be used as a crude way to communicate to the receiving thread
/// that no more data will be produced.
/// When the `Producer` is dropped after the [`Consumer`] has already been dropped,
/// [`RingBuffer::drop()`] will be called, freeing the allocated memory.
#[derive(Debug, PartialEq, Eq)]
pub struct Producer<T> {
    /// A reference to the ring buffer.
    buffer: Arc<RingBuffer<T>>,

    /// A copy of `buffer.head` for quick access.
    ///
    /// This value can be stale and sometimes needs to be resynchronized with `buffer.head`.
    cached_head: Cell<usize>,

    /// A copy of `buffer.tail` for quick access.
    ///
    /// This value is always in sync with `buffer.tail`.
    // NB: Caching the tail seems to have little effect on Intel CPUs, but it seems to
    //     improve performance on AMD CPUs, see https://github.com/mgeier/rtrb/pull/132
    cached_tail: Cell<usize>,
}

// SAFETY: After moving a Producer to another thread, there is still only a single thread
// that can access the producer side of the queue.
unsafe impl<T: Send> Send for Producer<T> {}

impl<T> Producer<T> {
    /// Attempts to push an element into the queue.
    ///
    /// The element is *moved* into the ring buffer and its slot
    /// is made available to be read by the [`Consumer`].
    ///
    /// # Errors
    ///
    /// If the queue is full, the element is returned back as an error.
    ///
    /// # Examples
    ///
    /// ```
    /// use rtrb::{RingBuffer, PushError};
    ///
    /// let (mut p, c) = RingBuffer::new(1);
    ///
    /// assert_eq!(p.push(10), Ok(()));
    /// assert_eq!(p.push(20), Err(PushError::Full(20)));
    /// ```
    pub fn push(&mut self, value: T) -> Result<(), PushError<T>> {
        if let Some(tail) = self.next_tail() {
            // SAFETY: tail points to an empty slot.
            unsafe { self.buffer.slot_ptr(tail).write(value) };
            let tail = self.buffer.increment1(tail);
            crate::vhook::point("rtrb.push.tail.store");
            self.buffer.tail.store(tail, Ordering::Release);
            self.cached_tail.set(tail);
            Ok(())
        } else {
            Err(PushError::Full(value))
        }
    }

    /// Returns the number of slots available for writing.
    ///
    /// Since items can be concurrently consumed on another thread, the actual number
    /// of available slots may increase at any time (up to the [`RingBuffer::capacity()`]).
    ///
    /// To check for a single available slot,
    /// using [`Producer::is_full()`] is often quicker
    /// (because it might not have to check an atomic variable).
    ///
    /// # Examples
    ///
    /// ```
    /// use rtrb::RingBuffer;
    ///
    /// let (p, c) = RingBuffer::<f32>::new(1024);
    ///
    /// assert_eq!(p.slots(), 1024);
    /// ```
    pub fn slots(&self) -> usize {
        crate::vhook::point("rtrb.producer.head.load");
        let head = self.buffer.head.load(Ordering::Acquire);
        self.cached_head.set(head);
        self.buffer.capacity - self.buffer.distance(head, self.cached_tail.get())
    }

    /// Returns the number of cached slots.
    ///
    /// In many cases, this will not provide all available slots,
    /// but it might be marginally faster than [`Producer::slots()`]
    /// because it doesn't access the atomic read index.
    pub fn cached_slots(&self) -> usize {
        let head = self.cached_head.get();
        let tail = self.cached_tail.get();
        self.buffer.capacity - self.buffer.distance(head, tail)
    }

    /// Returns `true` if there are currently no slots available for writing.
    ///
    /// A full ring buffer might cease to be full at any time
    /// if the corresponding [`Consumer`] is consuming items in another thread.
    ///
    /// # Examples
    ///
    /// ```
    /// use rtrb::RingBuffer;
    ///
    /// let (p, c) = RingBuffer::<f32>::new(1);
    ///
    /// assert!(!p.is_full());
    /// ```
    ///
    /// Since items can be concurrently consumed on another thread, the ring buffer
    /// might not be full for long:
    ///
    /// ```
    /// # use rtrb::RingBuffer;
    /// # let (p, c) = RingBuffer::<f32>::new(1);
    /// if p.is_full() {
    ///     // The buffer might be full, but it might as well not be
    ///     // if an item was just consumed on another thread.
    /// }
    /// ```
    ///
    /// However, if it's not full, another thread cannot change that:
    ///
    /// ```
    /// # use rtrb::RingBuffer;
    /// # let (p, c) = RingBuffer::<f32>::new(1);
    /// if !p.is_full() {
    ///     // At least one slot is guaranteed to be available for writing.
    /// }
    /// ```
    pub fn is_full(&self) -> bool {
        self.next_tail().is_none()
    }

    /// Returns `true` if the corresponding [`Consumer`] has been destroyed.
    ///
    /// Note that since Rust version 1.74.0, this is not synchronizing with the consumer thread
    /// anymore, see <https://github.com/mgeier/rtrb/issues/114>.
    /// In a future version of `rtrb`, the synchronizing behavior might be restored.
    ///
    /// # Examples
    ///
    /// ```
    /// use rtrb::RingBuffer;
    ///
    /// let (mut p, c) = RingBuffer::new(7);
    /// assert!(!p.is_abandoned());
    /// assert_eq!(p.push(10), Ok(()));
    /// drop(c);
    /// // The items that are still in the ring buffer are not accessible anymore.
    /// assert!(p.is_abandoned());
    /// // Even though it's futile, items can still be written:
    /// assert_eq!(p.push(11), Ok(()));
    /// ```
    ///
    /// Since the consumer can be concurrently dropped on another thread,
    /// the producer might become abandoned at any time:
    ///
    /// ```
    /// # use rtrb::RingBuffer;
    /// # let (p, c) = RingBuffer::<i32>::new(1);
    /// if !p.is_abandoned() {
    ///     // Right now, the consumer might still be alive, but it might as well not be
    ///     // if another thread has just dropped it.
    /// }
    /// ```
    ///
    /// However, if it already is abandoned, it will stay that way:
    ///
    /// ```
    /// # use rtrb::RingBuffer;
    /// # let (p, c) = RingBuffer::<i32>::new(1);
    /// if p.is_abandoned() {
    ///     // This is needed since Rust 1.74.0, see https://github.com/mgeier/rtrb/issues/114:
    ///     std::sync::atomic::fence(std::sync::atomic::Ordering::Acquire);
    ///     // The consumer does definitely not exist anymore.
    /// }
    /// ```
    pub fn is_abandoned(&self) -> bool {
        Arc::strong_count(&self.buffer) < 2
    }

    /// Returns a read-only reference to the ring buffer.
    pub fn buffer(&self) -> &RingBuffer<T> {
        &self.buffer
    }

    /// Get the tail position for writing the next slot, if available.
    ///
    /// This is a strict subset of the functionality implemented in `write_chunk_uninit()`.
    /// For performance, this special case is immplemented separately.
    fn next_tail(&self) -> Option<usize> {
        let tail = self.cached_tail.get();

        // Check if the queue is *possibly* full.
        if self.buffer.distance(self.cached_head.get(), tail) == self.buffer.capacity {
            // Refresh the head ...
            crate::vhook::point("rtrb.producer.head.load");
            let head = self.buffer.head.load(Ordering::Acquire);
            self.cached_head.set(head);

            // ... and check if it's *really* full.
            if self.buffer.distance(head, tail) == self.buffer.capacity {
                return None;
            }
        }
        Some(tail)
    }
}

/// The consumer side of a [`RingBuffer`].
///
/// Can be moved between threads,
/// but references from different threads are not allowed
/// (i.e. it is [`Send`] but not [`Sync`]).
///
/// Can only be created with [`RingBuffer::new()`]
/// (together with its counterpart, the [`Producer`]).
///
/// Individual elements can be moved out of the ring buffer with [`Consumer::pop()`],
/// multiple elements at once can be read with [`Consumer::read_chunk()`],
/// [`Consumer::pop_partial_slice()`] and [`Consumer::pop_partial_slice_uninit()`].
///
/// The number of slots currently available for reading can be obtained with
/// [`Consumer::slots()`].
///
/// When the `Consumer` is dropped, [`Producer::is_abandoned()`] will return `true`.
/// This can be used as a crude way to communicate to the sending thread
/// that no more data will be consumed.
/// When the `Consumer` is dropped after the [`Producer`] has already been dropped,
/// [`RingBuffer::drop()`] will be called, freeing the allocated memory.
#[derive(Debug, PartialEq, Eq)]
pub struct Consumer<T> {
    /// A reference to the ring buffer.
    buffer: Arc<RingBuffer<T>>,

    /// A copy of `buffer.head` for quick access.
    ///
    /// This value is always in sync with `buffer.head`.
    // NB: Caching the head seems to have little effect on Intel CPUs, but it seems to
    //     improve performance on AMD CPUs, see https://github.com/mgeier/rtrb/pull/132
    cached_head: Cell<usize>,

    /// A copy of `buffer.tail` for quick access.
    ///
    /// This value can be stale and sometimes needs to be resynchronized with `buffer.tail`.
    cached_tail: Cell<usize>,
}

// SAFETY: After moving a Consumer to another thread, there is still only a single thread
// that can access the consumer side of the queue.
unsafe impl<T: Send> Send for Consumer<T> {}

impl<T> Consumer<T> {
    /// Attempts to pop an element from the queue.
    ///
    /// The element is *moved* out of the ring buffer and its slot
    /// is made available to be filled by the [`Producer`] again.
    ///
    /// # Errors
    ///
    /// If the queue is empty, an error is returned.
    ///
    /// # Examples
    ///
    /// ```
    /// use rtrb::{PopError, RingBuffer};
    ///
    /// let (mut p, mut c) = RingBuffer::new(1);
    ///
    /// assert_eq!(p.push(10), Ok(()));
    /// assert_eq!(c.pop(), Ok(10));
    /// assert_eq!(c.pop(), Err(PopError::Empty));
    /// ```
    ///
    /// To obtain an [`Option<T>`](Option), use [`.ok()`](Result::ok) on the result.
    ///
    /// ```
    /// # use rtrb::RingBuffer;
    /// # let (mut p, mut c) = RingBuffer::new(1);
    /// assert_eq!(p.push(20), Ok(()));
    /// assert_eq!(c.pop().ok(), Some(20));
    /// ```
    pub fn pop(&mut self) -> Result<T, PopError> {
        if let Some(head) = self.next_head() {
            // SAFETY: head points to an initialized slot.
            let value = unsafe { self.buffer.slot_ptr(head).read() };
            let head = self.buffer.increment1(head);
            crate::vhook::point("rtrb.pop.head.store");
            self.buffer.head.store(head, Ordering::Release);
            self.cached_head.set(head);
            Ok(value)
        } else {
            Err(PopError::Empty)
        }
    }

    /// Attempts to read an element from the queue without removing it.
    ///
    /// # Errors
    ///
    /// If the queue is empty, an error is returned.
    ///
    /// # Examples
    ///
    /// ```
    /// use rtrb::{PeekError, RingBuffer};
    ///
    /// let (mut p, c) = RingBuffer::new(1);
    ///
    /// assert_eq!(c.peek(), Err(PeekError::Empty));
    /// assert_eq!(p.push(10), Ok(()));
    /// assert_eq!(c.peek(), Ok(&10));
    /// assert_eq!(c.peek(), Ok(&10));
    /// ```
    ///
    /// Note that `peek()` takes a shared reference to `self`,
    /// which means that other methods that take `&self` can be called
    /// while the returned reference is still in use.
    /// However, calling methods that take `&mut self`
    /// (like [`Consumer::pop()`] and [`Consumer::read_chunk()`]) leads to a compiler error:
    ///
    /// ```compile_fail
    /// use rtrb::RingBuffer;
    ///
    /// let (mut p, mut c) = RingBuffer::new(8);
    /// p.push(10).unwrap();
    /// let shared_ref = c.peek().unwrap();
    /// let value = c.pop().unwrap();
    /// assert_eq!(shared_ref, &10);
    /// ```
    pub fn peek(&self) -> Result<&T, PeekError> {
        if let Some(head) = self.next_head() {
            // SAFETY: head points to an initialized slot.
            Ok(unsafe { &*self.buffer.slot_ptr(head) })
        } else {
            Err(PeekError::Empty)
        }
    }

    /// Returns the number of slots available for reading.
    ///
    /// Since items can be concurrently produced on another thread, the actual number
    /// of available slots may increase at any time (up to the [`RingBuffer::capacity()`]).
    ///
    /// To check for a single available slot,
    /// using [`Consumer::is_empty()`] is often quicker
    /// (because it might not have to check an atomic variable).
    ///
    /// # Examples
    ///
    /// ```
    /// use rtrb::RingBuffer;
    ///
    /// let (p, c) = RingBuffer::<f32>::new(1024);
    ///
    /// assert_eq!(c.slots(), 0);
    /// ```
    pub fn slots(&self) -> usize {
        crate::vhook::point("rtrb.consumer.tail.load");
        let tail = self.buffer.tail.load(Ordering::Acquire);
        self.cached_tail.set(tail);
        self.buffer.distance(self.cached_head.get(), tail)
    }

    /// Returns the number of cached slots.
    ///
    /// In many cases, this will not provide all available slots,
    /// but it might be marginally faster than [`Consumer::slots()`]
    /// because it doesn't access the atomic write index.
    pub fn cached_slots(&self) -> usize {
        let head = self.cached_head.get();
        let tail = self.cached_tail.get();
        self.buffer.distance(head, tail)
    }

    /// Returns `true` if there are currently no slots available for reading.
    ///
    /// An empty ring buffer might cease to be empty at any time
    /// if the corresponding [`Producer`] is producing items in another thread.
    ///
    /// # Examples
    ///
    /// ```
    /// use rtrb::RingBuffer;
    ///
    /// let (p, c) = RingBuffer::<f32>::new(1);
    ///
    /// assert!(c.is_empty());
    /// ```
    ///
    /// Since items can be concurrently produced on another thread, the ring buffer
    /// might not be empty for long:
    ///
    /// ```
    /// # use rtrb::RingBuffer;
    /// # let (p, c) = RingBuffer::<f32>::new(1);
    /// if c.is_empty() {
    ///     // The buffer might be empty, but it might as well not be
    ///     // if an item was just produced on another thread.
    /// }
    /// ```
    ///
    /// However, if it's not empty, another thread cannot change that:
    ///
    /// ```
    /// # use rtrb::RingBuffer;
    /// # let (p, c) = RingBuffer::<f32>::new(1);
    /// if !c.is_empty() {
    ///     // At least one slot is guaranteed to be available for reading.
    /// }
    /// ```
    pub fn is_empty(&self) -> bool {
        self.next_head().is_none()
    }

    /// Returns `true` if the corresponding [`Producer`] has been destroyed.
    ///
    /// Note that since Rust version 1.74.0, this is not synchronizing with the producer thread
    /// anymore, see <https://github.com/mgeier/rtrb/issues/114>.
    /// In a future version of `rtrb`, the synchronizing behavior might be restored.
    ///
    /// # Examples
    ///
    /// ```
    /// use rtrb::RingBuffer;
    ///
    /// let (mut p, mut c) = RingBuffer::new(7);
    /// assert!(!c.is_abandoned());
    /// assert_eq!(p.push(10), Ok(()));
    /// drop(p);
    /// assert!(c.is_abandoned());
    /// // The items that are left in the ring buffer can still be consumed:
    /// assert_eq!(c.pop(), Ok(10));
    /// ```
    ///
    /// Since the producer can be concurrently dropped on another thread,
    /// the consumer might become abandoned at any time:
    ///
    /// ```
    /// # use rtrb::RingBuffer;
    /// # let (p, c) = RingBuffer::<i32>::new(1);
    /// if !c.is_abandoned() {
    ///     // Right now, the producer might still be alive, but it might as well not be
    ///     // if another thread has just dropped it.
    /// }
    /// ```
    ///
    /// However, if it already is abandoned, it will stay that way:
    ///
    /// ```
    /// # use rtrb::RingBuffer;
    /// # let (p, c) = RingBuffer::<i32>::new(1);
    /// if c.is_abandoned() {
    ///     // This is needed since Rust 1.74.0, see https://github.com/mgeier/rtrb/issues/114:
    ///     std::sync::atomic::fence(std::sync::atomic::Ordering::Acquire);
    ///     // The producer does definitely not exist anymore.
    /// }
    /// ```
    pub fn is_abandoned(&self) -> bool {
        Arc::strong_count(&self.buffer) < 2
    }

    /// Returns a read-only reference to the ring buffer.
    pub fn buffer(&self) -> &RingBuffer<T> {
        &self.buffer
    }

    /// Get the head position for reading the next slot, if available.
    ///
    /// This is a strict subset of the functionality implemented in `read_chunk()`.
    /// For performance, this special case is immplemented separately.
    fn next_head(&self) -> Option<usize> {
        let head = self.cached_head.get();

        // Check if the queue is *possibly* empty.
        if head == self.cached_tail.get() {
            // Refresh the tail ...
            crate::vhook::point("rtrb.consumer.tail.load");
            let tail = self.buffer.tail.load(Ordering::Acquire);
            self.cached_tail.set(tail);

            // ... and check if it's *really* empty.
            if head == tail {
                return None;
            }
        }
        Some(head)
    }
}

/// Extension trait used to provide a [`copy_to_uninit()`](CopyToUninit::copy_to_uninit)
/// method on built-in slices.
///
/// This can be used to safely copy data to the slices returned from
/// [`WriteChunkUninit::as_mut_slices()`].
///
/// To use this, the trait has to be brought into scope, e.g. with:
///
/// ```
/// use rtrb::CopyToUninit;
/// ```
pub trait CopyToUninit<T: Copy> {
    /// Copies contents to a possibly uninitialized slice.
    fn copy_to_uninit<'a>(&self, dst: &'a mut [MaybeUninit<T>]) -> &'a mut [T];
}

impl<T: Copy> CopyToUninit<T> for [T] {
    /// Copies contents to a possibly uninitialized slice.
    ///
    /// # Panics
    ///
    /// This function will panic if the two slices have different lengths.
    fn copy_to_uninit<'a>(&self, dst: &'a mut [MaybeUninit<T>]) -> &'a mut [T] {
        assert_eq!(
            self.len(),
            dst.len(),
            "source slice length does not match destination slice length"
        );
        let dst_ptr = dst.as_mut_ptr().cast();
        // SAFETY: The lengths have been checked to be equal and
        // the mutable reference makes sure that there is no overlap.
        unsafe {
            self.as_ptr().copy_to_nonoverlapping(dst_ptr, self.len());
            core::slice::from_raw_parts_mut(dst_ptr, self.len())
        }
    }
}

/// Error type for [`Consumer::pop()`].
#[derive(Debug, Copy, Clone, PartialEq, Eq)]
pub enum PopError {
    /// The queue was empty.
    Empty,
}

#[cfg(feature = "std")]
impl std::error::Error for PopError {}

impl fmt::Display for PopError {
    fn fmt(&self, f: &mut fmt::Formatter<'_>) -> fmt::Result {
        match self {
            PopError::Empty => "empty ring buffer".fmt(f),
        }
    }
}

/// Error type for [`Consumer::peek()`].
#[derive(Debug, Copy, Clone, PartialEq, Eq)]
pub enum PeekError {
    /// The queue was empty.
    Empty,
}

#[cfg(feature = "std")]
impl std::error::Error for PeekError {}

impl fmt::Display for PeekError {
    fn fmt(&self, f: &mut fmt::Formatter<'_>) -> fmt::Result {
        match self {
            PeekError::Empty => "empty ring buffer".fmt(f),
        }
    }
}

/// Error type for [`Producer::push()`].
#[derive(Copy, Clone, PartialEq, Eq)]
pub enum PushError<T> {
    /// The queue was full.
    Full(T),
}

#[cfg(feature = "std")]
impl<T> std::error::Error for PushError<T> {}

impl<T> fmt::Debug for PushError<T> {
    fn fmt(&self, f: &mut fmt::Formatter<'_>) -> fmt::Result {
        match self {
            PushError::Full(_) => f.pad("Full(_)"),
        }
    }
}

impl<T> fmt::Display for PushError<T> {
    fn fmt(&self, f: &mut fmt::Formatter<'_>) -> fmt::Result {
        match self {
            PushError::Full(_) => "full ring buffer".fmt(f),
        }
    }
}

/// Verification hook (added by /verif): called immediately before every cross-thread atomic
/// operation of this crate. A no-op unless a hook is installed.
pub mod vhook {
    use core::sync::atomic::{AtomicUsize, Ordering};
    static HOOK: AtomicUsize = AtomicUsize::new(0);
    /// install / remove the hook
    pub fn set_hook(h: Option<fn(&'static str)>) {
        HOOK.store(h.map(|f| f as usize).unwrap_or(0), Ordering::SeqCst);
    }
    /// called before an atomic operation
    #[inline]
    pub fn point(site: &'static str) {
        let p = HOOK.load(Ordering::SeqCst);
        if p != 0 {
            let f: fn(&'static str) = unsafe { core::mem::transmute::<usize, fn(&'static str)>(p) };
            f(site);
        }
    }
}
