//! In this crate, we propose a Rust implementation of triple buffering. This is
//! a non-blocking thread synchronization mechanism that can be used when a
//! single producer thread is frequently updating a shared data block, and a
//! single consumer thread wants to be able to read the latest available version
//! of the shared data whenever it feels like it.
//!
//! # Examples
//!
//! For many use cases, you can use the ergonomic write/read interface, where
//! the producer moves values into the buffer and the consumer accesses the
//! latest buffer by shared reference:
//!
//! ```
//! // Create a triple buffer
//! use triple_buffer::triple_buffer;
//! let (mut buf_input, mut buf_output) = triple_buffer(&0);
//!
//! // The producer thread can move a value into the buffer at any time
//! let producer = std::thread::spawn(move || buf_input.write(42));
//!
//! // The consumer thread can read the latest value at any time
//! let consumer = std::thread::spawn(move || {
//!     let latest = buf_output.read();
//!     assert!(*latest == 42 || *latest == 0);
//! });
//!
//! # producer.join().unwrap();
//! # consumer.join().unwrap();
//! ```
//!
//! In situations where moving the original value away and being unable to
//! modify it on the consumer's side is too costly, such as if creating a new
//! value involves dynamic memory allocation, you can use a lower-level API
//! which allows you to access the producer and consumer's buffers in place
//! and to precisely control when updates are propagated:
//!
//! ```
//! // Create and split a triple buffer
//! use triple_buffer::triple_buffer;
//! let (mut buf_input, mut buf_output) = triple_buffer(&String::with_capacity(42));
//!
//! // --- PRODUCER SIDE ---
//!
//! // Mutate the input buffer in place
//! {
//!     // Acquire a reference to the input buffer
//!     let input = buf_input.input_buffer_mut();
//!
//!     // In general, you don't know what's inside of the buffer, so you should
//!     // always reset the value before use (this is a type-specific process).
//!     input.clear();
//!
//!     // Perform an in-place update
//!     input.push_str("Hello, ");
//! }
//!
//! // Publish the above input buffer update
//! buf_input.publish();
//!
//! // --- CONSUMER SIDE ---
//!
//! // Manually fetch the buffer update from the consumer interface
//! buf_output.update();
//!
//! // Acquire read-only reference to the output buffer
//! let output = buf_output.peek_output_buffer();
//! assert_eq!(*output, "Hello, ");
//!
//! // Or acquire mutable reference if necessary
//! let output_mut = buf_output.output_buffer_mut();
//!
//! // Post-process the output value before use
//! output_mut.push_str("world!");
//! ```
//!
//! Finally, as a middle ground before the maximal ergonomics of the
//! [`write()`](Input::write) API and the maximal control of the
//! [`input_buffer_mut()`](Input::input_buffer_mut)/[`publish()`](Input::publish)
//! API, you can also use the
//! [`input_buffer_publisher()`](Input::input_buffer_publisher) RAII API on the
//! producer side, which ensures that `publish()` is automatically called when
//! the resulting input buffer handle goes out of scope:
//!
//! ```
//! // Create and split a triple buffer
//! use triple_buffer::triple_buffer;
//! let (mut buf_input, _) = triple_buffer(&String::with_capacity(42));
//!
//! // Mutate the input buffer in place and publish it
//! {
//!     // Acquire a reference to the input buffer
//!     let mut input = buf_input.input_buffer_publisher();
//!
//!     // In general, you don't know what's inside of the buffer, so you should
//!     // always reset the value before use (this is a type-specific process).
//!     input.clear();
//!
//!     // Perform an in-place update
//!     input.push_str("Hello world!");
//!
//!     // Input buffer is automatically published at the end of the scope of
//!     // the "input" RAII guard
//! }
//!
//! // From this point on, the consumer can see the updated version
//! ```

#![cfg_attr(not(test), no_std)]
#![deny(missing_debug_implementations, missing_docs)]

extern crate alloc;

use crossbeam_utils::CachePadded;

use alloc::sync::Arc;
use core::{
    cell::UnsafeCell,
    fmt,
    ops::{Deref, DerefMut},
    sync::atomic::{AtomicU8, Ordering},
};

/// A triple buffer, useful for nonblocking and thread-safe data sharing
///
/// A triple buffer is a single-producer single-consumer nonblocking
/// communication channel which behaves like a shared variable: the producer
/// submits regular updates, and the consumer accesses the latest available
/// value whenever it feels like it.
#[derive(Debug)]
pub struct TripleBuffer<T: Send> {
    /// Input object used by producers to send updates
    input: Input<T>,

    /// Output object used by consumers to read the current value
    output: Output<T>,
}
//
impl<T: Clone + Send> TripleBuffer<T> {
    /// Construct a triple buffer with a certain initial value
    pub fn new(initial: &T) -> Self {
        Self::new_impl(|| initial.clone())
    }
}
//
impl<T: Default + Send> Default for TripleBuffer<T> {
    /// Construct a triple buffer with a default-constructed value
    fn default() -> Self {
        Self::new_impl(T::default)
    }
}
//
impl<T: Send> TripleBuffer<T> {
    /// Construct a triple buffer, using a functor to generate initial values
    fn new_impl(mut generator: impl FnMut() -> T) -> Self {
        // Start with the shared state...
        let shared_state = Arc::new(SharedState::new(|_i| generator(), 0));

        // ...then construct the input and output structs
        TripleBuffer {
            input: Input {
                shared: shared_state.clone(),
                input_idx: 1,
            },
            output: Output {
                shared: shared_state,
                output_idx: 2,
            },
        }
    }

    /// Extract input and output of the triple buffer
    //
    // NOTE: Although it would be nicer to directly return `Input` and `Output`
    //       from `new()`, the `split()` design gives some API evolution
    //       headroom towards future allocation-free modes of operation where
    //       the SharedState is a static variable, or a stack-allocated variable
    //       used through scoped threads or other unsafe thread synchronization.
    //
    //       See https://github.com/HadrienG2/triple-buffer/issues/8 .
    //
    pub fn split(self) -> (Input<T>, Output<T>) {
        (self.input, self.output)
    }
}
//
/// Shorthand for `TripleBuffer::new(initial).split()`
pub fn triple_buffer<T: Clone + Send>(initial: &T) -> (Input<T>, Output<T>) {
    TripleBuffer::new(initial).split()
}
//
// The Clone and PartialEq traits are used internally for testing and I don't
// want to commit to supporting them publicly for now.
//
#[doc(hidden)]
impl<T: Clone + Send> Clone for TripleBuffer<T> {
    fn clone(&self) -> Self {
        // Clone the shared state. This is safe because at this layer of the
        // interface, one needs an Input/Output &mut to mutate the shared state.
        let shared_state = Arc::new(unsafe { (*self.input.shared).clone() });

        // ...then the input and output structs
        TripleBuffer {
            input: Input {
                shared: shared_state.clone(),
                input_idx: self.input.input_idx,
            },
            output: Output {
                shared: shared_state,
                output_idx: self.output.output_idx,
            },
        }
    }
}
//
#[doc(hidden)]
impl<T: PartialEq + Send> PartialEq for TripleBuffer<T> {
    fn eq(&self, other: &Self) -> bool {
        // Compare the shared states. This is safe because at this layer of the
        // interface, one needs an Input/Output &mut to mutate the shared state.
        let shared_states_equal = unsafe { (*self.input.shared).eq(&*other.input.shared) };

        // Compare the rest of the triple buffer states
        shared_states_equal
            && (self.input.input_idx == other.input.input_idx)
            && (self.output.output_idx == other.output.output_idx)
    }
}

/// Producer interface to the triple buffer
///
/// The producer of data can use this struct to submit updates to the triple
/// buffer whenever he likes. These updates are nonblocking: a collision between
/// the producer and the consumer will result in cache contention, but deadlocks
/// and scheduling-induced slowdowns cannot happen.
#[derive(Debug)]
pub struct Input<T: Send> {
    /// Reference-counted shared state
    shared: Arc<SharedState<T>>,

    /// Index of the input buffer (which is private to the producer)
    input_idx: BufferIndex,
}
//
// Public interface
impl<T: Send> Input<T> {
    /// Write a new value into the triple buffer
    pub fn write(&mut self, value: T) {
        // Update the input buffer
        *self.input_buffer_mut() = value;

        // Publish our update to the consumer
        self.publish();
    }

    /// Check if the consumer has fetched our latest submission yet
    ///
    /// This method is only intended for diagnostics purposes. Please do not let
    /// it inform your decision of sending or not sending a value, as that would
    /// effectively be building a very poor spinlock-based double buffer
    /// implementation. If what you truly need is a double buffer, build
    /// yourself a proper blocking one instead of wasting CPU time.
    pub fn consumed(&self) -> bool {
        crate::vhook::point("tb.consumed.load");
        let back_info = self.shared.back_info.load(Ordering::Relaxed);
        back_info & BACK_DIRTY_BIT == 0
    }

    /// Query the current value of the input buffer
    ///
    /// This is simply a read-only version of
    /// [`input_buffer_mut()`](Input::input_buffer_mut). Please read the
    /// documentation of that method for more information on the precautions
    /// that need to be taken when accessing the input buffer in place.
    fn peek_input_buffer(&self) -> &T {
        // Access the input buffer directly
        let input_ptr = self.shared.buffers[self.input_idx as usize].get();
        unsafe { &*input_ptr }
    }

    /// Access the input buffer directly
    ///
    /// This is, for now, a deprecated alias to
    /// [`input_buffer_mut()`](Input::input_buffer_mut). Please use this method
    /// instead.
    ///
    /// In a future major release of this crate, `input_buffer()` will
    /// undergo a breaking change to instead provide read-only access.
    ///
    /// The aim of this process is to eventually migrate towards the standard
    /// `accessor()`/`accessor_mut()` method naming convention that most Rust
    /// libraries follow.
    #[deprecated = "Please use input_buffer_mut() instead"]
    pub fn input_buffer(&mut self) -> &mut T {
        self.input_buffer_mut()
    }

    /// Access the input buffer directly
    ///
    /// This advanced interface allows you to update the input buffer in place,
    /// so that you can avoid creating values of type T repeatedy just to push
    /// them into the triple buffer when doing so is expensive.
    ///
    /// However, by using it, you force yourself to take into account some
    /// implementation subtleties that you could otherwise ignore.
    ///
    /// First, the buffer does not contain the last value that you published
    /// (which is now available to the consumer thread). In fact, what you get
    /// may not match _any_ value that you sent in the past, but rather be a new
    /// value that was written in there by the consumer thread. All you can
    /// safely assume is that the buffer contains a valid value of type T, which
    /// you may need to "clean up" before use using a type-specific process
    /// (like calling the `clear()` method of a `Vec`/`String`).
    ///
    /// Second, we do not send updates automatically. You need to call
    /// [`publish()`](Input::publish) in order to propagate a buffer update to
    /// the consumer. If you would prefer this to be done automatically when the
    /// input buffer reference goes out of scope, consider using the
    /// [`input_buffer_publisher()`](Input::input_buffer_publisher) RAII
    /// interface instead.
    pub fn input_buffer_mut(&mut self) -> &mut T {
        // This is safe because the synchronization protocol ensures that we
        // have exclusive access to this buffer.
        let input_ptr = self.shared.buffers[self.input_idx as usize].get();
        unsafe { &mut *input_ptr }
    }

    /// Publish the current input buffer, checking for overwrites
    ///
    /// After updating the input buffer in-place using
    /// [`input_buffer_mut()`](Input::input_buffer_mut), you can use this method
    /// to publish your updates to the consumer. Beware that this will replace
    /// the current input buffer with another one that has totally unrelated
    /// contents.
    ///
    /// It will also tell you whether you overwrote a value which was not read
    /// by the consumer thread.
    pub fn publish(&mut self) -> bool {
        // Swap the input buffer and the back buffer, setting the dirty bit
        //
        // The ordering must be AcqRel, because...
        //
        // - Our accesses to the old buffer must not be reordered after this
        //   operation (which mandates Release ordering), otherwise they could
        //   race with the consumer accessing the freshly published buffer.
        // - Our accesses from the buffer must not be reordered before this
        //   operation (which mandates Consume ordering, that is best
        //   approximated by Acquire in Rust), otherwise they would race with
        //   the consumer accessing the buffer as well before switching to
        //   another buffer.
        //   * This reordering may seem paradoxical, but could happen if the
        //     compiler or CPU correctly speculated the new buffer's index
        //     before that index is actually read, as well as on weird hardware
        //     with incoherent caches like GPUs or old DEC Alpha where keeping
        //     data in sync across cores requires manual action.
        //
        crate::vhook::point("tb.publish.swap");
        let former_back_info = self
            .shared
            .back_info
            .swap(self.input_idx | BACK_DIRTY_BIT, Ordering::AcqRel);

        // The old back buffer becomes our new input buffer
        self.input_idx = former_back_info & BACK_INDEX_MASK;

        // Tell whether we have overwritten unread data
        former_back_info & BACK_DIRTY_BIT != 0
    }

    /// Access the input buffer wrapped in the `InputPublishGuard`
    ///
    /// This is an RAII alternative to the [`input_buffer_mut()`]/[`publish()`]
    /// workflow where the [`publish()`] transaction happens automatically when
    /// the input buffer handle goes out of scope.
    ///
    /// Please check out the documentation of [`input_buffer_mut()`] and
    /// [`publish()`] to know more about the precautions that you need to take
    /// when using the lower-level in-place buffer access interface.
    ///
    /// [`input_buffer_mut()`]: Input::input_buffer_mut
    /// [`publish()`]: Input::publish
    pub fn input_buffer_publisher(&mut self) -> InputPublishGuard<T> {
        InputPublishGuard { reference: self }
    }
}

/// RAII Guard to the buffer provided by an [`Input`].
///
/// The current buffer of the [`Input`] can be accessed through this guard via
/// its [`Deref`] and [`DerefMut`] implementations.
///
/// When the guard is dropped, [`Input::publish()`] will be called
/// automatically.
///
/// This structure is created by the [`Input::input_buffer_publisher()`] method.
pub struct InputPublishGuard<'a, T: 'a + Send> {
    reference: &'a mut Input<T>,
}

impl<T: Send> Deref for InputPublishGuard<'_, T> {
    type Target = T;

    fn deref(&self) -> &T {
        self.reference.peek_input_buffer()
    }
}

impl<T: Send> DerefMut for InputPublishGuard<'_, T> {
    fn deref_mut(&mut self) -> &mut T {
        self.reference.input_buffer_mut()
    }
}

impl<T: Send> Drop for InputPublishGuard<'_, T> {
    #[inline]
    fn drop(&mut self) {
        self.reference.publish();
    }
}

impl<T: Send + fmt::Debug> fmt::Debug for InputPublishGuard<'_, T> {
    fn fmt(&self, f: &mut fmt::Formatter<'_>) -> fmt::Result {
        fmt::Debug::fmt(&**self, f)
    }
}

impl<T: fmt::Display + Send> fmt::Display for InputPublishGuard<'_, T> {
    fn fmt(&self, f: &mut fmt::Formatter<'_>) -> fmt::Result {
        (**self).fmt(f)
    }
}

/// Consumer interface to the triple buffer
///
/// The consumer of data can use this struct to access the latest published
/// update from the producer whenever he likes. Readout is nonblocking: a
/// collision between the producer and consumer will result in cache contention,
/// but deadlocks and scheduling-induced slowdowns cannot happen.
#[derive(Debug)]
pub struct Output<T: Send> {
    /// Reference-counted shared state
    shared: Arc<SharedState<T>>,

    /// Index of the output buffer (which is private to the consumer)
    output_idx: BufferIndex,
}
//
// Public interface
impl<T: Send> Output<T> {
    /// Access the latest value from the triple buffer
    pub fn read(&mut self) -> &T {
        // Fetch updates from the producer
        self.update();

        // Give access to the output buffer
        self.output_buffer_mut()
    }

    /// Tell whether an updated value has been submitted by the producer
    ///
    /// This method is mainly intended for diagnostics purposes. Please do not
    /// let it inform your decision of reading a value or not, as that would
    /// effectively be building a very poor spinlock-based double buffer
    /// implementation. If what you truly need is a double buffer, build
    /// yourself a proper blocking one instead of wasting CPU time.
    pub fn updated(&self) -> bool {
        crate::vhook::point("tb.updated.load");
        let back_info = self.shared.back_info.load(Ordering::Relaxed);
        back_info & BACK_DIRTY_BIT != 0
    }

    /// Query the current value of the output buffer
    ///
    /// This is simply a read-only version of
    /// [`output_buffer_mut()`](Output::output_buffer_mut). Please read the
    /// documentation of that method for more information on the precautions
    /// that need to be taken when accessing the output buffer in place.
    ///
    /// In particular, remember that this method does not update the output
    /// buffer automatically. You need to call [`update()`](Output::update) in
    /// order to fetch buffer updates from the producer.
    pub fn peek_output_buffer(&self) -> &T {
        // Access the output buffer directly
        let output_ptr = self.shared.buffers[self.output_idx as usize].get();
        unsafe { &*output_ptr }
    }

    /// Access the input buffer directly
    ///
    /// This is, for now, a deprecated alias to [`output_buffer_mut()`]. Please
    /// use this method instead.
    ///
    /// In a future major release of this crate, `output_buffer()` will undergo
    /// a breaking change to instead provide read-only access, like
    /// [`peek_output_buffer()`] currently does. At that point,
    /// [`peek_output_buffer()`] will be deprecated.
    ///
    /// Finally, in a later major release [`peek_output_buffer()`] will be
    /// removed.
    ///
    /// The aim of this process is to eventually migrate towards the standard
    /// `accessor()`/`accessor_mut()` method naming convention that most Rust
    /// libraries follow.
    ///
    /// [`output_buffer_mut()`]: Output::output_buffer_mut
    /// [`peek_output_buffer()`]: Output::peek_output_buffer
    #[deprecated = "Please use output_buffer_mut() instead"]
    pub fn output_buffer(&mut self) -> &mut T {
        self.output_buffer_mut()
    }

    /// Access the output buffer directly
    ///
    /// This advanced interface allows you to modify the contents of the output
    /// buffer, so that you can avoid copying the output value when this is an
    /// expensive process. One possible application, for example, is to
    /// post-process values from the producer before use.
    ///
    /// However, by using it, you force yourself to take into account some
    /// implementation subtleties that you could normally ignore.
    ///
    /// First, keep in mind that you can lose access to the current output
    /// buffer any time [`read()`] or [`update()`] is called, as it may be
    /// replaced by an updated buffer from the producer automatically.
    ///
    /// Second, to reduce the potential for the aforementioned usage error, this
    /// method does not update the output buffer automatically. You need to call
    /// [`update()`] in order to fetch buffer updates from the producer.
    ///
    /// [`read()`]: Output::read
    /// [`update()`]: Output::update
    pub fn output_buffer_mut(&mut self) -> &mut T {
        // This is safe because the synchronization protocol ensures that we
        // have exclusive access to this buffer.
        let output_ptr = self.shared.buffers[self.output_idx as usize].get();
        unsafe { &mut *output_ptr }
    }

    /// Update the output buffer
    ///
    /// Check if the producer submitted a new data version, and if one is
    /// available, update our output buffer to use it. Return a flag that tells
    /// you whether such an update was carried out.
    ///
    /// Bear in mind that when this happens, you will lose any change that you
    /// performed to the output buffer via the
    /// [`output_buffer_mut()`](Output::output_buffer_mut) interface.
    pub fn update(&mut self) -> bool {
        // Check if an update is present in the back-buffer
        let updated = self.updated();
        if updated {
            // Access the shared state
            let shared_state = &(*self.shared);

            // If so, exchange our output buffer with the back-buffer, thusly
            // acquiring exclusive access to the old back buffer while giving
            // the producer a new back-buffer to write to.
            //
            // The ordering must be AcqRel, because...
            //
            // - Our accesses to the previous buffer must not be reordered after
            //   this operation (which mandates Release ordering), otherwise
            //   they could race with the producer accessing the freshly
            //   liberated buffer.
            // - Our accesses from the buffer must not be reordered before this
            //   operation (which mandates Consume ordering, that is best
            //   approximated by Acquire in Rust), otherwise they would race
            //   with the producer writing into the buffer before publishing it.
            //   * This reordering may seem paradoxical, but could happen if the
            //     compiler or CPU correctly speculated the new buffer's index
            //     before that index is actually read, as well as on weird hardware
            //     like GPUs where CPU caches require manual synchronization.
            //
            crate::vhook::point("tb.update.swap");
            let former_back_info = shared_state
                .back_info
                .swap(self.output_idx, Ordering::AcqRel);

            // Make the old back-buffer our new output buffer
            self.output_idx = former_back_info & BACK_INDEX_MASK;
        }

        // Tell whether an update was carried out
        updated
    }
}

/// Triple buffer shared state
///
/// In a triple buffering communication protocol, the producer and consumer
/// share the following storage:
///
/// - Three memory buffers suitable for storing the data at hand
/// - Information about the back-buffer: which buffer is the current back-buffer
///   and whether an update was published since the last readout.
#[derive(Debug)]
struct SharedState<T: Send> {
    /// Data storage buffers
    buffers: [CachePadded<UnsafeCell<T>>; 3],

    /// Information about the current back-buffer state
    back_info: CachePadded<AtomicBackBufferInfo>,
}
//
#[doc(hidden)]
impl<T: Send> SharedState<T> {
    /// Given (a way to generate) buffer contents and the back info, build the shared state
    fn new(mut gen_buf_data: impl FnMut(usize) -> T, back_info: BackBufferInfo) -> Self {
        let mut make_buf = |i| -> CachePadded<UnsafeCell<T>> {
            CachePadded::new(UnsafeCell::new(gen_buf_data(i)))
        };
        Self {
            buffers: [make_buf(0), make_buf(1), make_buf(2)],
            back_info: CachePadded::new(AtomicBackBufferInfo::new(back_info)),
        }
    }
}
//
#[doc(hidden)]
impl<T: Clone + Send> SharedState<T> {
    /// Cloning the shared state is unsafe because you must ensure that no one
    /// is concurrently accessing it, since &self is enough for writing.
    unsafe fn clone(&self) -> Self {
        Self::new(
            |i| (*self.buffers[i].get()).clone(),
            self.back_info.load(Ordering::Relaxed),
        )
    }
}
//
#[doc(hidden)]
impl<T: PartialEq + Send> SharedState<T> {
    /// Equality is unsafe for the same reason as cloning: you must ensure that
    /// no one is concurrently accessing the triple buffer to avoid data races.
    unsafe fn eq(&self, other: &Self) -> bool {
        // Check whether the contents of all buffers are equal...
        let buffers_equal = self
            .buffers
            .iter()
            .zip(other.buffers.iter())
            .all(|tuple| -> bool {
                let (cell1, cell2) = tuple;
                *cell1.get() == *cell2.get()
            });

        // ...then check whether the rest of the shared state is equal
        buffers_equal
            && (self.back_info.load(Ordering::Relaxed) == other.back_info.load(Ordering::Relaxed))
    }
}
//
unsafe impl<T: Send> Sync for SharedState<T> {}

// Index types used for triple buffering
//
// These types are used to index into triple buffers. In addition, the
// BackBufferInfo type is actually a bitfield, whose third bit (numerical
// value: 4) is set to 1 to indicate that the producer published an update into
// the back-buffer, and reset to 0 when the consumer fetches the update.
//
type BufferIndex = u8;
type BackBufferInfo = BufferIndex;
//
type AtomicBackBufferInfo = AtomicU8;
const BACK_INDEX_MASK: u8 = 0b11; // Mask used to extract back-buffer index
const BACK_DIRTY_BIT: u8 = 0b100; // Bit set by producer to signal updates

/// Unit tests
#[cfg(test)]
mod tests {
    use super::{BufferIndex, SharedState, TripleBuffer, BACK_DIRTY_BIT, BACK_INDEX_MASK};
    use std::{fmt::Debug, ops::Deref, sync::atomic::Ordering, thread, time::Duration};
    use testbench::race_cell::{RaceCell, Racey};

    /// Check that triple buffers are properly initialized
    #[test]
    fn initial_state() {
        // Let's create a triple buffer
        let mut buf = TripleBuffer::new(&42);
        check_buf_state(&mut buf, false);
        assert_eq!(*buf.output.read(), 42);
    }

    /// Check that the shared state's unsafe equality operator works
    #[test]
    fn partial_eq_shared() {
        // Let's create some dummy shared state
        let dummy_state = SharedState::<u16>::new(|i| [111, 222, 333][i], 0b10);

        // Check that the dummy state is equal to itself
        assert!(unsafe { dummy_state.eq(&dummy_state) });

        // Check that it's not equal to a state where buffer contents differ
        assert!(unsafe { !dummy_state.eq(&SharedState::<u16>::new(|i| [114, 222, 333][i], 0b10)) });
        assert!(unsafe { !dummy_state.eq(&SharedState::<u16>::new(|i| [111, 225, 333][i], 0b10)) });
        assert!(unsafe { !dummy_state.eq(&SharedState::<u16>::new(|i| [111, 222, 336][i], 0b10)) });

        // Check that it's not equal to a state where the back info differs
        assert!(unsafe {
            !dummy_state.eq(&SharedState::<u16>::new(
                |i| [111, 222, 333][i],
                BACK_DIRTY_BIT & 0b10,
            ))
        });
        assert!(unsafe { !dummy_state.eq(&SharedState::<u16>::new(|i| [111, 222, 333][i], 0b01)) });
    }

    /// Check that TripleBuffer's PartialEq impl works
    #[test]
    fn partial_eq() {
        // Create a triple buffer
        let buf = TripleBuffer::new(&"test");

        // Check that it is equal to itself
        assert_eq!(buf, buf);

        // Make another buffer with different contents. As buffer creation is
        // deterministic, this should only have an impact on the shared state,
        // but the buffers should nevertheless be considered different.
        let buf2 = TripleBuffer::new(&"taste");
        assert_eq!(buf.input.input_idx, buf2.input.input_idx);
        assert_eq!(buf.output.output_idx, buf2.output.output_idx);
        assert!(buf != buf2);

        // Check that changing either the input or output buffer index will
        // also lead two TripleBuffers to be considered different (this test
        // technically creates an invalid TripleBuffer state, but it's the only
        // way to check that the PartialEq impl is exhaustive)
        let mut buf3 = TripleBuffer::new(&"test");
        assert_eq!(buf, buf3);
        let old_input_idx = buf3.input.input_idx;
        buf3.input.input_idx = buf3.output.output_idx;
        assert!(buf != buf3);
        buf3.input.input_idx = old_input_idx;
        buf3.output.output_idx = old_input_idx;
        assert!(buf != buf3);
    }

    /// Check that the shared state's unsafe clone operator works
    #[test]
    fn clone_shared() {
        // Let's create some dummy shared state
        let dummy_state = SharedState::<u8>::new(|i| [123, 231, 132][i], BACK_DIRTY_BIT & 0b01);

        // Now, try to clone it
        let dummy_state_copy = unsafe { dummy_state.clone() };

        // Check that the contents of the original state did not change
        assert!(unsafe {
            dummy_state.eq(&SharedState::<u8>::new(
                |i| [123, 231, 132][i],
                BACK_DIRTY_BIT & 0b01,
            ))
        });

        // Check that the contents of the original and final state are identical
        assert!(unsafe { dummy_state.eq(&dummy_state_copy) });
    }

    /// Check that TripleBuffer's Clone impl works
    #[test]
    fn clone() {
        // Create a triple buffer
        let mut buf = TripleBuffer::new(&4.2);

        // Put it in a nontrivial state
        unsafe {
            *buf.input.shared.buffers[0].get() = 1.2;
            *buf.input.shared.buffers[1].get() = 3.4;
            *buf.input.shared.buffers[2].get() = 5.6;
        }
        buf.input
            .shared
            .back_info
            .store(BACK_DIRTY_BIT & 0b01, Ordering::Relaxed);
        buf.input.input_idx = 0b10;
        buf.output.output_idx = 0b00;

        // Now clone it
        let buf_clone = buf.clone();

        // Check that the clone uses its own, separate shared data storage
        assert_eq!(
            as_ptr(&buf_clone.input.shared),
            as_ptr(&buf_clone.output.shared)
        );
        assert_ne!(as_ptr(&buf_clone.input.shared), as_ptr(&buf.input.shared));
        assert_ne!(as_ptr(&buf_clone.output.shared), as_ptr(&buf.output.shared));

        // Check that it is identical from PartialEq's point of view
        assert_eq!(buf, buf_clone);

        // Check that the contents of the original buffer did not change
        unsafe {
            assert_eq!(*buf.input.shared.buffers[0].get(), 1.2);
            assert_eq!(*buf.input.shared.buffers[1].get(), 3.4);
            assert_eq!(*buf.input.shared.buffers[2].get(), 5.6);
        }
        assert_eq!(
            buf.input.shared.back_info.load(Ordering::Relaxed),
            BACK_DIRTY_BIT & 0b01
        );
        assert_eq!(buf.input.input_idx, 0b10);
        assert_eq!(buf.output.output_idx, 0b00);
    }

    /// Check that the low-level publish/update primitives work
    #[test]
    fn swaps() {
        // Create a new buffer, and a way to track any changes to it
        let mut buf = TripleBuffer::new(&[123, 456]);
        let old_buf = buf.clone();
        let old_input_idx = old_buf.input.input_idx;
        let old_shared = &old_buf.input.shared;
        let old_back_info = old_shared.back_info.load(Ordering::Relaxed);
        let old_back_idx = old_back_info & BACK_INDEX_MASK;
        let old_output_idx = old_buf.output.output_idx;

        // Check that updating from a clean state works
        assert!(!buf.output.update());
        assert_eq!(buf, old_buf);
        check_buf_state(&mut buf, false);

        // Check that publishing from a clean state works
        assert!(!buf.input.publish());
        let mut expected_buf = old_buf.clone();
        expected_buf.input.input_idx = old_back_idx;
        expected_buf
            .input
            .shared
            .back_info
            .store(old_input_idx | BACK_DIRTY_BIT, Ordering::Relaxed);
        assert_eq!(buf, expected_buf);
        check_buf_state(&mut buf, true);

        // Check that overwriting a dirty state works
        assert!(buf.input.publish());
        let mut expected_buf = old_buf.clone();
        expected_buf.input.input_idx = old_input_idx;
        expected_buf
            .input
            .shared
            .back_info
            .store(old_back_idx | BACK_DIRTY_BIT, Ordering::Relaxed);
        assert_eq!(buf, expected_buf);
        check_buf_state(&mut buf, true);

        // Check that updating from a dirty state works
        assert!(buf.output.update());
        expected_buf.output.output_idx = old_back_idx;
        expected_buf
            .output
            .shared
            .back_info
            .store(old_output_idx, Ordering::Relaxed);
        assert_eq!(buf, expected_buf);
        check_buf_state(&mut buf, false);
    }

    /// Check that writing to a triple buffer works
    #[test]
    fn vec_guarded_write() {
        let mut buf = TripleBuffer::new(&vec![]);

        // write new value, publish, read
        {
            let mut buffer = buf.input.input_buffer_publisher();
            buffer.push(0);
            buffer.push(1);
            buffer.push(2);

            // not yet published
            let back_info = buffer.reference.shared.back_info.load(Ordering::Relaxed);
            let back_buffer_dirty = back_info & BACK_DIRTY_BIT != 0;
            assert!(!back_buffer_dirty);
        }
        check_buf_state(&mut buf, true); // after publish, before read
        assert_eq!(*buf.output.read(), vec![0, 1, 2]);
        check_buf_state(&mut buf, false); // after publish and read

        // write new value, publish, don't read
        {
            buf.input.input_buffer_publisher().push(3);
        }
        check_buf_state(&mut buf, true);

        // write new value, publish, read
        {
            buf.input.input_buffer_publisher().push(4);
        }
        assert_eq!(*buf.output.read(), vec![4]);
        check_buf_state(&mut buf, false);

        // overwrite existing value, publish, surprising read
        {
            buf.input.input_buffer_publisher().push(5);
        }
        assert_eq!(*buf.output.read(), vec![3, 5]);
        check_buf_state(&mut buf, false);

        // to avoid surprise, always clear before write
        {
            let mut buffer = buf.input.input_buffer_publisher();
            buffer.clear();
            buffer.push(6);
        }
        assert_eq!(*buf.output.read(), vec![6]);
        check_buf_state(&mut buf, false);
    }

    /// Check that (sequentially) writing to a triple buffer works
    #[test]
    fn sequential_write() {
        // Let's create a triple buffer
        let mut buf = TripleBuffer::new(&false);

        // Back up the initial buffer state
        let old_buf = buf.clone();

        // Perform a write
        buf.input.write(true);

        // Check new implementation state
        {
            // Starting from the old buffer state...
            let mut expected_buf = old_buf.clone();

            // ...write the new value in and swap...
            *expected_buf.input.input_buffer_mut() = true;
            expected_buf.input.publish();

            // Nothing else should have changed
            assert_eq!(buf, expected_buf);
            check_buf_state(&mut buf, true);
        }
    }

    /// Check that (sequentially) writing to a triple buffer works
    #[test]
    fn sequential_guarded_write() {
        // Let's create a triple buffer
        let mut buf = TripleBuffer::new(&false);

        // Back up the initial buffer state
        let old_buf = buf.clone();

        // Perform a write
        *buf.input.input_buffer_publisher() = true;

        // Check new implementation state
        {
            // Starting from the old buffer state...
            let mut expected_buf = old_buf.clone();

            // ...write the new value in and swap...
            *expected_buf.input.input_buffer_mut() = true;
            expected_buf.input.publish();

            // Nothing else should have changed
            assert_eq!(buf, expected_buf);
            check_buf_state(&mut buf, true);
        }
    }

    /// Check that (sequentially) reading from a triple buffer works
    #[test]
    fn sequential_read() {
        // Let's create a triple buffer and write into it
        let mut buf = TripleBuffer::new(&1.0);
        buf.input.write(4.2);

        // Test readout from dirty (freshly written) triple buffer
        {
            // Back up the initial buffer state
            let old_buf = buf.clone();

            // Read from the buffer
            let result = *buf.output.read();

            // Output value should be correct
            assert_eq!(result, 4.2);

            // Result should be equivalent to carrying out an update
            let mut expected_buf = old_buf.clone();
            assert!(expected_buf.output.update());
            assert_eq!(buf, expected_buf);
            check_buf_state(&mut buf, false);
        }

        // Test readout from clean (unchanged) triple buffer
        {
            // Back up the initial buffer state
            let old_buf = buf.clone();

            // Read from the buffer
            let result = *buf.output.read();

            // Output value should be correct
            assert_eq!(result, 4.2);

            // Buffer state should be unchanged
            assert_eq!(buf, old_buf);
            check_buf_state(&mut buf, false);
        }
    }

    /// Check that (sequentially) reading from a triple buffer works
    #[test]
    fn sequential_guarded_read() {
        // Let's create a triple buffer and write into it
        let mut buf = TripleBuffer::new(&1.0);
        *buf.input.input_buffer_publisher() = 4.2;

        // Test readout from dirty (freshly written) triple buffer
        {
            // Back up the initial buffer state
            let old_buf: TripleBuffer<f64> = buf.clone();

            // Read from the buffer
            let result = *buf.output.read();

            // Output value should be correct
            assert_eq!(result, 4.2);

            // Result should be equivalent to carrying out an update
            let mut expected_buf = old_buf.clone();
            assert!(expected_buf.output.update());
            assert_eq!(buf, expected_buf);
            check_buf_state(&mut buf, false);
        }

        // Test readout from clean (unchanged) triple buffer
        {
            // Back up the initial buffer state
            let old_buf = buf.clone();

            // Read from the buffer
            let result = *buf.output.read();

            // Output value should be correct
            assert_eq!(result, 4.2);

            // Buffer state should be unchanged
            assert_eq!(buf, old_buf);
            check_buf_state(&mut buf, false);
        }
    }

    /// Check that contended concurrent reads and writes work
    #[test]
    #[ignore]
    fn contended_concurrent_read_write() {
        // We will stress the infrastructure by performing this many writes
        // as a reader continuously reads the latest value
        #[cfg(not(feature = "miri"))]
        const TEST_WRITE_COUNT: usize = 100_000_000;
        #[cfg(feature = "miri")]
        const TEST_WRITE_COUNT: usize = 3_000;

        // This is the buffer that our reader and writer will share
        let buf = TripleBuffer::new(&RaceCell::new(0));
        let (mut buf_input, mut buf_output) = buf.split();

        // Concurrently run a writer which increments a shared value in a loop,
        // and a reader which makes sure that no unexpected value slips in.
        let mut last_value = 0usize;
        testbench::concurrent_test_2(
            move || {
                for value in 1..=TEST_WRITE_COUNT {
                    buf_input.write(RaceCell::new(value));
                }
            },
            move || {
                while last_value < TEST_WRITE_COUNT {
                    let new_racey_value = buf_output.read().get();
                    match new_racey_value {
                        Racey::Consistent(new_value) => {
                            assert!((new_value >= last_value) && (new_value <= TEST_WRITE_COUNT));
                            last_value = new_value;
                        }
                        Racey::Inconsistent => {
                            panic!("Inconsistent state exposed by the buffer!");
                        }
                    }
                }
            },
        );
    }

    /// Check that uncontended concurrent reads and writes work
    ///
    /// **WARNING:** This test unfortunately needs to have timing-dependent
    /// behaviour to do its job. If it fails for you, try the following:
    ///
    /// - Close running applications in the background
    /// - Re-run the tests with only one OS thread (--test-threads=1)
    /// - Increase the writer sleep period
    #[test]
    #[ignore]
    fn uncontended_concurrent_read_write() {
        // We will stress the infrastructure by performing this many writes
        // as a reader continuously reads the latest value
        #[cfg(not(feature = "miri"))]
        const TEST_WRITE_COUNT: usize = 625;
        #[cfg(feature = "miri")]
        const TEST_WRITE_COUNT: usize = 200;

        // This is the buffer that our reader and writer will share
        let buf = TripleBuffer::new(&RaceCell::new(0));
        let (mut buf_input, mut buf_output) = buf.split();

        // Concurrently run a writer which slowly increments a shared value,
        // and a reader which checks that it can receive every update
        let mut last_value = 0usize;
        testbench::concurrent_test_2(
            move || {
                for value in 1..=TEST_WRITE_COUNT {
                    buf_input.write(RaceCell::new(value));
                    thread::yield_now();
                    thread::sleep(Duration::from_millis(32));
                }
            },
            move || {
                while last_value < TEST_WRITE_COUNT {
                    let new_racey_value = buf_output.read().get();
                    match new_racey_value {
                        Racey::Consistent(new_value) => {
                            assert!((new_value >= last_value) && (new_value - last_value <= 1));
                            last_value = new_value;
                        }
                        Racey::Inconsistent => {
                            panic!("Inconsistent state exposed by the buffer!");
                        }
                    }
                }
            },
        );
    }

    /// Through the low-level API, the consumer is allowed to modify its
    /// bufffer, which means that it will unknowingly send back data to the
    /// producer. This creates new correctness requirements for the
    /// synchronization protocol, which must be checked as well.
    #[test]
    #[ignore]
    fn concurrent_bidirectional_exchange() {
        // We will stress the infrastructure by performing this many writes
        // as a reader continuously reads the latest value
        #[cfg(not(feature = "miri"))]
        const TEST_WRITE_COUNT: usize = 100_000_000;
        #[cfg(feature = "miri")]
        const TEST_WRITE_COUNT: usize = 3_000;

        // This is the buffer that our reader and writer will share
        let buf = TripleBuffer::new(&RaceCell::new(0));
        let (mut buf_input, mut buf_output) = buf.split();

        // Concurrently run a writer which increments a shared value in a loop,
        // and a reader which makes sure that no unexpected value slips in.
        testbench::concurrent_test_2(
            move || {
                for new_value in 1..=TEST_WRITE_COUNT {
                    match buf_input.input_buffer_mut().get() {
                        Racey::Consistent(curr_value) => {
                            assert!(curr_value <= new_value);
                        }
                        Racey::Inconsistent => {
                            panic!("Inconsistent state exposed by the buffer!");
                        }
                    }
                    buf_input.write(RaceCell::new(new_value));
                }
            },
            move || {
                let mut last_value = 0usize;
                while last_value < TEST_WRITE_COUNT {
                    match buf_output.peek_output_buffer().get() {
                        Racey::Consistent(new_value) => {
                            assert!((new_value >= last_value) && (new_value <= TEST_WRITE_COUNT));
                            last_value = new_value;
                        }
                        Racey::Inconsistent => {
                            panic!("Inconsistent state exposed by the buffer!");
                        }
                    }
                    if buf_output.updated() {
                        buf_output.output_buffer_mut().set(last_value / 2);
                        buf_output.update();
                    }
                }
            },
        );
    }

    /// Range check for triple buffer indexes
    #[allow(unused_comparisons)]
    fn index_in_range(idx: BufferIndex) -> bool {
        (0..=2).contains(&idx)
    }

    /// Get a pointer to the target of some reference (e.g. an &, an Arc...)
    fn as_ptr<P: Deref>(ref_like: &P) -> *const P::Target {
        &(**ref_like) as *const _
    }

    /// Check the state of a buffer, and the effect of queries on it
    fn check_buf_state<T>(buf: &mut TripleBuffer<T>, expected_dirty_bit: bool)
    where
        T: Clone + Debug + PartialEq + Send,
    {
        // Make a backup of the buffer's initial state
        let initial_buf = buf.clone();

        // Check that the input and output point to the same shared state
        assert_eq!(as_ptr(&buf.input.shared), as_ptr(&buf.output.shared));

        // Access the shared state and decode back-buffer information
        let back_info = buf.input.shared.back_info.load(Ordering::Relaxed);
        let back_idx = back_info & BACK_INDEX_MASK;
        let back_buffer_dirty = back_info & BACK_DIRTY_BIT != 0;

        // Input-/output-/back-buffer indexes must be in range
        assert!(index_in_range(buf.input.input_idx));
        assert!(index_in_range(buf.output.output_idx));
        assert!(index_in_range(back_idx));

        // Input-/output-/back-buffer indexes must be distinct
        assert!(buf.input.input_idx != buf.output.output_idx);
        assert!(buf.input.input_idx != back_idx);
        assert!(buf.output.output_idx != back_idx);

        // Back-buffer must have the expected dirty bit
        assert_eq!(back_buffer_dirty, expected_dirty_bit);

        // Check that the "input buffer" query behaves as expected
        assert_eq!(
            as_ptr(&buf.input.input_buffer_mut()),
            buf.input.shared.buffers[buf.input.input_idx as usize].get()
        );
        assert_eq!(*buf, initial_buf);

        // Check that the "consumed" query behaves as expected
        assert_eq!(!buf.input.consumed(), expected_dirty_bit);
        assert_eq!(*buf, initial_buf);

        // Check that the output_buffer query works in the initial state
        assert_eq!(
            as_ptr(&buf.output.peek_output_buffer()),
            buf.output.shared.buffers[buf.output.output_idx as usize].get()
        );
        assert_eq!(*buf, initial_buf);

        // Check that the output buffer query works in the initial state
        assert_eq!(buf.output.updated(), expected_dirty_bit);
        assert_eq!(*buf, initial_buf);
    }
}

/// Verification hook (added by /verif): called immediately before every cross-thread atomic
/// operation of this crate. A no-op unless a hook is installed.
pub mod vhook {
    use core::sync::atomic::{AtomicUsize, Ordering};
    static HOOK: AtomicUsize = AtomicUsize::new(0);
    /// install / remove the hook
    pub fn set_hook(h: Option<fn(&'static str)>) {
        HOOK.store(h.map(|f| f as usize).unwrap_or(0), Ordering::SeqCst);
    }
    /// called before an atomic operation
    #[inline]
    pub fn point(site: &'static str) {
        let p = HOOK.load(Ordering::SeqCst);
        if p != 0 {
            let f: fn(&'static str) = unsafe { core::mem::transmute::<usize, fn(&'static str)>(p) };
            f(site);
        }
    }
}
