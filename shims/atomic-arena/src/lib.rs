/*!
`atomic_arena` provides a generational [`Arena`] that you can reserve
a [`Key`] for ahead of time using a [`Controller`]. [`Controller`]s
are backed by atomics, so they can be cloned and used across threads
and still have consistent state.

This is useful when you want to insert an item into an [`Arena`] on
a different thread, but you want to have a valid [`Key`] for that
item immediately on the current thread.
*/

#![warn(missing_docs)]

mod controller;
pub mod error;
pub mod iter;
mod slot;

#[cfg(test)]
mod test;

pub use controller::Controller;

use error::{ArenaFull, InsertWithKeyError};
use iter::{DrainFilter, Iter, IterMut};
use slot::{ArenaSlot, ArenaSlotState};

/// A unique identifier for an item in an [`Arena`].
#[derive(Debug, Clone, Copy, PartialEq, Eq, Hash)]
pub struct Key {
	index: usize,
	generation: usize,
}

/// A container of items that can be accessed via a [`Key`].
#[derive(Debug)]
pub struct Arena<T> {
	controller: Controller,
	slots: Vec<ArenaSlot<T>>,
	first_occupied_slot_index: Option<usize>,
}

impl<T> Arena<T> {
	/// Creates a new [`Arena`] with enough space for `capacity`
	/// number of items.
	pub fn new(capacity: usize) -> Self {
		Self {
			controller: Controller::new(capacity),
			slots: (0..capacity).map(|_| ArenaSlot::new()).collect(),
			first_occupied_slot_index: None,
		}
	}

	/// Returns a [`Controller`] for this [`Arena`].
	pub fn controller(&self) -> Controller {
		self.controller.clone()
	}

	/// Returns the total capacity for this [`Arena`].
	pub fn capacity(&self) -> usize {
		self.slots.len()
	}

	/// Returns the number of items currently in the [`Arena`].
	pub fn len(&self) -> usize {
		self.slots
			.iter()
			.filter(|slot| matches!(&slot.state, ArenaSlotState::Occupied { .. }))
			.count()
	}

	/// Returns `true` if the [`Arena`] is currently empty.
	pub fn is_empty(&self) -> bool {
		self.len() == 0
	}

	/// Tries to insert an item into the [`Arena`] with a previously
	/// reserved [`Key`].
	pub fn insert_with_key(&mut self, key: Key, data: T) -> Result<(), InsertWithKeyError> {
		// make sure the key is valid and reserved
		if let Some(slot) = self.slots.get(key.index) {
			if slot.generation != key.generation {
				return Err(InsertWithKeyError::InvalidKey);
			}
			if let ArenaSlotState::Occupied { .. } = &slot.state {
				return Err(InsertWithKeyError::KeyNotReserved);
			}
		} else {
			return Err(InsertWithKeyError::InvalidKey);
		}

		// update the previous head to point to the new head
		// as the previous occupied slot
		if let Some(head_index) = self.first_occupied_slot_index {
			self.slots[head_index].set_previous_occupied_slot_index(Some(key.index));
		}

		// insert the new data
		self.slots[key.index].state = ArenaSlotState::Occupied {
			data,
			previous_occupied_slot_index: None,
			next_occupied_slot_index: self.first_occupied_slot_index,
		};

		// update the head
		self.first_occupied_slot_index = Some(key.index);

		Ok(())
	}

	/// Tries to reserve a [`Key`], and, if successful, inserts
	/// an item into the [`Arena`] with that [`Key`] and
	/// returns the [`Key`].
	pub fn insert(&mut self, data: T) -> Result<Key, ArenaFull> {
		let key = self.controller.try_reserve()?;
		self.insert_with_key(key, data).unwrap();
		Ok(key)
	}

	fn remove_from_slot(&mut self, index: usize) -> Option<T> {
		let slot = &mut self.slots[index];
		let state = std::mem::replace(&mut slot.state, ArenaSlotState::Free);
		match state {
			ArenaSlotState::Free => None,
			ArenaSlotState::Occupied {
				data,
				previous_occupied_slot_index,
				next_occupied_slot_index,
			} => {
				slot.generation += 1;
				self.controller.free(index);

				// update the pointers of the previous and next slots
				if let Some(previous_index) = previous_occupied_slot_index {
					self.slots[previous_index]
						.set_next_occupied_slot_index(next_occupied_slot_index);
				}
				if let Some(next_index) = next_occupied_slot_index {
					self.slots[next_index]
						.set_previous_occupied_slot_index(previous_occupied_slot_index);
				}

				// update the head if needed.
				//
				// `first_occupied_slot_index` should always be `Some` in this case,
				// because this branch of the `match` is only taken if the slot is
				// occupied, and if any slots are occupied, `first_occupied_slot_index`
				// should be `Some`. if not, there's a major bug that needs addressing.
				if self.first_occupied_slot_index.unwrap() == index {
					self.first_occupied_slot_index = next_occupied_slot_index;
				}

				Some(data)
			}
		}
	}

	/// If the [`Arena`] contains an item with the given [`Key`],
	/// removes it from the [`Arena`] and returns `Some(item)`.
	/// Otherwise, returns `None`.
	pub fn remove(&mut self, key: Key) -> Option<T> {
		// TODO: answer the following questions:
		// - if you reserve a key, then try to remove the key
		// without having inserted anything, should the slot
		// be unreserved? the current answer is no
		// - what should happen if you try to remove a slot
		// with the wrong generation? currently the answer is
		// it just returns None like normal
		let slot = &mut self.slots[key.index];
		if slot.generation != key.generation {
			return None;
		}
		self.remove_from_slot(key.index)
	}

	/// Returns a shared reference to the item in the [`Arena`] with
	/// the given [`Key`] if it exists. Otherwise, returns `None`.
	pub fn get(&self, key: Key) -> Option<&T> {
		let slot = &self.slots[key.index];
		if slot.generation != key.generation {
			return None;
		}
		match &slot.state {
			ArenaSlotState::Free => None,
			ArenaSlotState::Occupied { data, .. } => Some(data),
		}
	}

	/// Returns a mutable reference to the item in the [`Arena`] with
	/// the given [`Key`] if it exists. Otherwise, returns `None`.
	pub fn get_mut(&mut self, key: Key) -> Option<&mut T> {
		let slot = &mut self.slots[key.index];
		if slot.generation != key.generation {
			return None;
		}
		match &mut slot.state {
			ArenaSlotState::Free => None,
			ArenaSlotState::Occupied { data, .. } => Some(data),
		}
	}

	/// Retains only the elements specified by the predicate.
	///
	/// In other words, remove all elements e such that f(&e) returns false.
	pub fn retain(&mut self, mut f: impl FnMut(&T) -> bool) {
		let mut index = match self.first_occupied_slot_index {
			Some(index) => index,
			None => return,
		};
		loop {
			if let ArenaSlotState::Occupied {
				data,
				next_occupied_slot_index,
				..
			} = &self.slots[index].state
			{
				let next_occupied_slot_index = next_occupied_slot_index.as_ref().copied();
				if !f(data) {
					self.remove_from_slot(index);
				}
				index = match next_occupied_slot_index {
					Some(index) => index,
					None => return,
				}
			} else {
				panic!("expected the slot pointed to by first_occupied_slot_index/next_occupied_slot_index to be occupied")
			}
		}
	}

	/// Returns an iterator over shared references to the items in
	/// the [`Arena`].
	///
	/// The most recently added items will be visited first.
	pub fn iter(&self) -> Iter<T> {
		Iter::new(self)
	}

	/// Returns an iterator over mutable references to the items in
	/// the [`Arena`].
	///
	/// The most recently added items will be visited first.
	pub fn iter_mut(&mut self) -> IterMut<T> {
		IterMut::new(self)
	}

	/// Returns an iterator that removes and yields all elements
	/// for which `filter(&element)` returns `true`.
	pub fn drain_filter<F: FnMut(&T) -> bool>(&mut self, filter: F) -> DrainFilter<T, F> {
		DrainFilter::new(self, filter)
	}
}

impl<T> std::ops::Index<Key> for Arena<T> {
	type Output = T;

	fn index(&self, key: Key) -> &Self::Output {
		self.get(key).expect("No item associated with this key")
	}
}

impl<T> std::ops::IndexMut<Key> for Arena<T> {
	fn index_mut(&mut self, key: Key) -> &mut Self::Output {
		self.get_mut(key).expect("No item associated with this key")
	}
}

impl<'a, T> IntoIterator for &'a Arena<T> {
	type Item = (Key, &'a T);

	type IntoIter = Iter<'a, T>;

	fn into_iter(self) -> Self::IntoIter {
		self.iter()
	}
}

impl<'a, T> IntoIterator for &'a mut Arena<T> {
	type Item = (Key, &'a mut T);

	type IntoIter = IterMut<'a, T>;

	fn into_iter(self) -> Self::IntoIter {
		self.iter_mut()
	}
}

/// Verification hook (added by /verif): called immediately before every cross-thread atomic
/// operation of this crate. A no-op unless a hook is installed.
pub mod vhook {
    use core::sync::atomic::{AtomicUsize, Ordering};
    static HOOK: AtomicUsize = AtomicUsize::new(0);
    /// install / remove the hook
    pub fn set_hook(h: Option<fn(&'static str)>) {
        HOOK.store(h.map(|f| f as usize).unwrap_or(0), Ordering::SeqCst);
    }
    /// called before an atomic operation
    #[inline]
    pub fn point(site: &'static str) {
        let p = HOOK.load(Ordering::SeqCst);
        if p != 0 {
            let f: fn(&'static str) = unsafe { core::mem::transmute::<usize, fn(&'static str)>(p) };
            f(site);
        }
    }
}
