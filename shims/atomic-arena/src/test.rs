use crate::{
	error::{ArenaFull, InsertWithKeyError},
	Arena,
};

#[test]
fn controller() {
	let arena = Arena::<()>::new(1);
	let controller1 = arena.controller();
	controller1.try_reserve().unwrap();
	// controllers should share state
	let controller2 = arena.controller();
	assert_eq!(controller2.try_reserve(), Err(ArenaFull));
}

#[test]
fn try_reserve() {
	let arena = Arena::<()>::new(3);
	let controller = arena.controller();
	// we should be able to reserve 3 indices
	// because the capacity is 3
	assert!(controller.try_reserve().is_ok());
	assert!(controller.try_reserve().is_ok());
	assert!(controller.try_reserve().is_ok());
	// we should not be able to reserve a 4th key
	assert_eq!(controller.try_reserve(), Err(ArenaFull));
}

#[test]
fn capacity() {
	let mut arena = Arena::new(3);
	assert_eq!(arena.capacity(), 3);
	// the capacity of the arena should be constant
	arena.insert(1).unwrap();
	assert_eq!(arena.capacity(), 3);
	let key2 = arena.insert(2).unwrap();
	assert_eq!(arena.capacity(), 3);
	arena.remove(key2);
	assert_eq!(arena.capacity(), 3);
}

#[test]
fn len() {
	let mut arena = Arena::new(3);
	arena.insert(1).unwrap();
	assert_eq!(arena.len(), 1);
	arena.insert(2).unwrap();
	assert_eq!(arena.len(), 2);
	let key3 = arena.insert(3).unwrap();
	assert_eq!(arena.len(), 3);
	// if inserting an element fails, the length should not
	// increase
	arena.insert(4).ok();
	assert_eq!(arena.len(), 3);
	arena.remove(key3);
	assert_eq!(arena.len(), 2);
	// if removing an element fails, the length should not
	// decrease
	arena.remove(key3);
	assert_eq!(arena.len(), 2);
}

#[test]
fn controller_capacity() {
	let mut arena = Arena::new(3);
	let controller = arena.controller();
	assert_eq!(controller.capacity(), 3);
	controller.try_reserve().unwrap();
	assert_eq!(controller.capacity(), 3);
	let key = arena.insert(()).unwrap();
	assert_eq!(controller.capacity(), 3);
	arena.remove(key);
	assert_eq!(controller.capacity(), 3);
}

#[test]
fn controller_len() {
	let mut arena = Arena::new(3);
	let controller = arena.controller();
	assert_eq!(controller.len(), 0);
	controller.try_reserve().unwrap();
	assert_eq!(controller.len(), 1);
	let key = arena.insert(()).unwrap();
	assert_eq!(controller.len(), 2);
	arena.remove(key);
	assert_eq!(controller.len(), 1);
}

#[test]
fn insert_with_key() {
	let mut arena = Arena::new(3);
	let controller = arena.controller();
	let key = controller.try_reserve().unwrap();
	// we should be able to insert with the key we reserved
	assert!(arena.insert_with_key(key, 1).is_ok());
	// the item should be in the arena
	assert_eq!(arena.get(key), Some(&1));
	// we should not be able to insert again with the same key
	assert_eq!(
		arena.insert_with_key(key, 2),
		Err(InsertWithKeyError::KeyNotReserved)
	);
}

#[test]
fn insert_with_invalid_key_index() {
	let key = {
		let mut arena = Arena::new(5);
		for _ in 0..4 {
			arena.insert(()).unwrap();
		}
		arena.insert(()).unwrap()
	};
	let mut arena = Arena::new(3);
	assert_eq!(
		arena.insert_with_key(key, ()),
		Err(InsertWithKeyError::InvalidKey)
	);
}

#[test]
fn insert_with_invalid_key_generation() {
	let key = {
		let mut arena = Arena::new(1);
		let key = arena.insert(()).unwrap();
		arena.remove(key);
		arena.insert(()).unwrap()
	};
	let mut arena = Arena::new(1);
	assert_eq!(
		arena.insert_with_key(key, ()),
		Err(InsertWithKeyError::InvalidKey)
	);
}

#[test]
fn insert() {
	let mut arena = Arena::new(3);
	// we should be able to insert 3 items
	let key1 = arena.insert(1).unwrap();
	let key2 = arena.insert(2).unwrap();
	let key3 = arena.insert(3).unwrap();
	// we should be able to retrieve those items with the
	// returned indices
	assert_eq!(arena.get(key1), Some(&1));
	assert_eq!(arena.get(key2), Some(&2));
	assert_eq!(arena.get(key3), Some(&3));
	// we should not be able to insert a 4th item
	assert_eq!(arena.insert(4), Err(ArenaFull));
}

#[test]
fn remove() {
	let mut arena = Arena::new(3);
	let key1 = arena.insert(1).unwrap();
	let key2 = arena.insert(2).unwrap();
	let key3 = arena.insert(3).unwrap();
	// we should be able to remove an item and get it back
	assert_eq!(arena.remove(key2), Some(2));
	// if there's no item associated with the key,
	// `remove` should return `None`
	assert_eq!(arena.remove(key2), None);
	// the other items should still be in the arena
	assert_eq!(arena.get(key1), Some(&1));
	assert_eq!(arena.get(key3), Some(&3));
	// there should be space to insert another item now
	assert!(arena.insert(4).is_ok());
	// we shouldn't be able to remove the new item in the
	// same slot with an old key
	assert_eq!(arena.remove(key2), None);
}

#[test]
fn get() {
	let mut arena = Arena::new(3);
	let key1 = arena.insert(1).unwrap();
	let key2 = arena.insert(2).unwrap();
	let key3 = arena.insert(3).unwrap();
	// get should return shared references
	assert_eq!(arena.get(key1), Some(&1));
	assert_eq!(arena.get(key2), Some(&2));
	assert_eq!(arena.get(key3), Some(&3));
	// get_mut should return mutable references
	assert_eq!(arena.get_mut(key1), Some(&mut 1));
	assert_eq!(arena.get_mut(key2), Some(&mut 2));
	assert_eq!(arena.get_mut(key3), Some(&mut 3));
	// after removing an item, get should return None
	arena.remove(key2);
	assert_eq!(arena.get(key2), None);
	// even after inserting a new item into the same slot,
	// the old key shouldn't work
	arena.insert(4).unwrap();
	assert_eq!(arena.get(key2), None);
}

#[test]
fn retain() {
	let mut arena = Arena::new(6);
	let key1 = arena.insert(1).unwrap();
	let key2 = arena.insert(2).unwrap();
	let key3 = arena.insert(3).unwrap();
	let key4 = arena.insert(4).unwrap();
	let key5 = arena.insert(5).unwrap();
	let key6 = arena.insert(6).unwrap();
	arena.retain(|num| num % 2 == 0);
	assert_eq!(arena.get(key1), None);
	assert_eq!(arena.get(key2), Some(&2));
	assert_eq!(arena.get(key3), None);
	assert_eq!(arena.get(key4), Some(&4));
	assert_eq!(arena.get(key5), None);
	assert_eq!(arena.get(key6), Some(&6));
}

#[test]
fn iter() {
	let mut arena = Arena::new(3);
	let key1 = arena.insert(1).unwrap();
	let key2 = arena.insert(2).unwrap();
	let key3 = arena.insert(3).unwrap();
	// iterators should visit all values
	let mut iter = arena.iter();
	assert_eq!(iter.next(), Some((key3, &3)));
	assert_eq!(iter.next(), Some((key2, &2)));
	assert_eq!(iter.next(), Some((key1, &1)));
	assert_eq!(iter.next(), None);
	// iterators should not visit removed values
	arena.remove(key2);
	let mut iter = arena.iter();
	assert_eq!(iter.next(), Some((key3, &3)));
	assert_eq!(iter.next(), Some((key1, &1)));
	assert_eq!(iter.next(), None);
	// iteration should always be newest first
	let key4 = arena.insert(4).unwrap();
	let mut iter = arena.iter();
	assert_eq!(iter.next(), Some((key4, &4)));
	assert_eq!(iter.next(), Some((key3, &3)));
	assert_eq!(iter.next(), Some((key1, &1)));
	assert_eq!(iter.next(), None);
}

#[test]
fn iter_mut() {
	let mut arena = Arena::new(3);
	let key1 = arena.insert(1).unwrap();
	let key2 = arena.insert(2).unwrap();
	let key3 = arena.insert(3).unwrap();
	// iterators should visit all values
	let mut iter = arena.iter_mut();
	assert_eq!(iter.next(), Some((key3, &mut 3)));
	assert_eq!(iter.next(), Some((key2, &mut 2)));
	assert_eq!(iter.next(), Some((key1, &mut 1)));
	assert_eq!(iter.next(), None);
	// iterators should not visit removed values
	arena.remove(key2);
	let mut iter = arena.iter_mut();
	assert_eq!(iter.next(), Some((key3, &mut 3)));
	assert_eq!(iter.next(), Some((key1, &mut 1)));
	assert_eq!(iter.next(), None);
	// iteration should always be newest first
	let key4 = arena.insert(4).unwrap();
	let mut iter = arena.iter_mut();
	assert_eq!(iter.next(), Some((key4, &mut 4)));
	assert_eq!(iter.next(), Some((key3, &mut 3)));
	assert_eq!(iter.next(), Some((key1, &mut 1)));
	assert_eq!(iter.next(), None);
}

// Useful for using miri to test unsafe code in the mutable iteration implementation.
#[test]
fn iter_mut_use_after_next() {
	let mut arena = Arena::new(2);
	let _ = arena.insert(1).unwrap();
	let _ = arena.insert(2).unwrap();
	let mut iter = arena.iter_mut();
	let first = iter.next().unwrap();
	let _second = iter.next().unwrap();
	// Let miri detect if `first` was invalidated by trying to use it.
	*first.1 = 3;
}

#[test]
fn drain_filter() {
	let mut arena = Arena::new(6);
	let key1 = arena.insert(1).unwrap();
	let key2 = arena.insert(2).unwrap();
	let key3 = arena.insert(3).unwrap();
	let key4 = arena.insert(4).unwrap();
	let key5 = arena.insert(5).unwrap();
	let key6 = arena.insert(6).unwrap();
	let mut iter = arena.drain_filter(|num| num % 2 == 0);
	assert_eq!(iter.next(), Some((key6, 6)));
	assert_eq!(iter.next(), Some((key4, 4)));
	assert_eq!(iter.next(), Some((key2, 2)));
	assert_eq!(iter.next(), None);
	assert_eq!(arena.len(), 3);
	assert_eq!(arena.get(key1), Some(&1));
	assert_eq!(arena.get(key2), None);
	assert_eq!(arena.get(key3), Some(&3));
	assert_eq!(arena.get(key4), None);
	assert_eq!(arena.get(key5), Some(&5));
	assert_eq!(arena.get(key6), None);
}
