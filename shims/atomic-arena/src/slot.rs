#[derive(Debug, Clone, PartialEq, Eq)]
pub(crate) enum ArenaSlotState<T> {
	Free,
	Occupied {
		data: T,
		previous_occupied_slot_index: Option<usize>,
		next_occupied_slot_index: Option<usize>,
	},
}

#[derive(Debug)]
pub(crate) struct ArenaSlot<T> {
	pub(crate) state: ArenaSlotState<T>,
	pub(crate) generation: usize,
}

impl<T> ArenaSlot<T> {
	pub(crate) fn new() -> Self {
		Self {
			state: ArenaSlotState::Free,
			generation: 0,
		}
	}

	pub(crate) fn set_previous_occupied_slot_index(&mut self, index: Option<usize>) {
		if let ArenaSlotState::Occupied {
			previous_occupied_slot_index,
			..
		} = &mut self.state
		{
			*previous_occupied_slot_index = index;
		} else {
			panic!("expected a slot to be occupied, but it was not");
		}
	}

	pub(crate) fn set_next_occupied_slot_index(&mut self, index: Option<usize>) {
		if let ArenaSlotState::Occupied {
			next_occupied_slot_index,
			..
		} = &mut self.state
		{
			*next_occupied_slot_index = index;
		} else {
			panic!("expected a slot to be occupied, but it was not");
		}
	}
}
