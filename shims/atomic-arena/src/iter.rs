//! [`Arena`] iterators.

use std::marker::PhantomData;

use crate::{
	slot::{ArenaSlot, ArenaSlotState},
	Arena, Key,
};

/// Iterates over shared references to the items in
/// the [`Arena`].
///
/// The most recently added items will be visited first.
pub struct Iter<'a, T> {
	next_occupied_slot_index: Option<usize>,
	arena: &'a Arena<T>,
}

impl<'a, T> Iter<'a, T> {
	pub(super) fn new(arena: &'a Arena<T>) -> Self {
		Self {
			next_occupied_slot_index: arena.first_occupied_slot_index,
			arena,
		}
	}
}

impl<'a, T> Iterator for Iter<'a, T> {
	type Item = (Key, &'a T);

	fn next(&mut self) -> Option<Self::Item> {
		if let Some(index) = self.next_occupied_slot_index {
			let slot = &self.arena.slots[index];
			if let ArenaSlotState::Occupied {
				data,
				next_occupied_slot_index,
				..
			} = &slot.state
			{
				self.next_occupied_slot_index = *next_occupied_slot_index;
				Some((
					Key {
						index,
						generation: slot.generation,
					},
					data,
				))
			} else {
				panic!("the iterator should not encounter a free slot");
			}
		} else {
			None
		}
	}
}

/// Iterates over mutable references to the items in
/// the [`Arena`].
///
/// The most recently added items will be visited first.
pub struct IterMut<'a, T> {
	next_occupied_slot_index: Option<usize>,
	slots: *mut [ArenaSlot<T>],
	marker: PhantomData<&'a mut Arena<T>>,
}

impl<'a, T> IterMut<'a, T> {
	pub(super) fn new(arena: &'a mut Arena<T>) -> Self {
		Self {
			next_occupied_slot_index: arena.first_occupied_slot_index,
			slots: arena.slots.as_mut_slice(),
			marker: PhantomData,
		}
	}
}

impl<'a, T> Iterator for IterMut<'a, T> {
	type Item = (Key, &'a mut T);

	fn next(&mut self) -> Option<Self::Item> {
		if let Some(index) = self.next_occupied_slot_index {
			let slot = {
				// as_mut_ptr and get_unchecked_mut on *mut [T] are unstable :(
				let start_ptr = self.slots.cast::<ArenaSlot<T>>();
				// SAFETY: This is always in bounds.
				let slot_ptr = unsafe { start_ptr.add(index) };
				// SAFETY:
				// * This relies on the invariant that `next_occupied_slot_index` never repeats. If
				//   it did repeat, we could create aliasing mutable references here.
				// * Lifetime is the same that we mutably borrow the Arena for.
				unsafe { slot_ptr.as_mut::<'a>() }.unwrap()
			};

			if let ArenaSlotState::Occupied {
				data,
				next_occupied_slot_index,
				..
			} = &mut slot.state
			{
				self.next_occupied_slot_index = *next_occupied_slot_index;
				Some((
					Key {
						index,
						generation: slot.generation,
					},
					data,
				))
			} else {
				panic!("the iterator should not encounter a free slot");
			}
		} else {
			None
		}
	}
}

/// An iterator that removes and yields elements from an
/// [`Arena`] according to a filter function.
pub struct DrainFilter<'a, T, F: FnMut(&T) -> bool> {
	arena: &'a mut Arena<T>,
	filter: F,
	next_occupied_slot_index: Option<usize>,
}

impl<'a, T, F: FnMut(&T) -> bool> DrainFilter<'a, T, F> {
	pub(super) fn new(arena: &'a mut Arena<T>, filter: F) -> Self {
		Self {
			next_occupied_slot_index: arena.first_occupied_slot_index,
			arena,
			filter,
		}
	}
}

impl<T, F: FnMut(&T) -> bool> Iterator for DrainFilter<'_, T, F> {
	type Item = (Key, T);

	fn next(&mut self) -> Option<Self::Item> {
		while let Some(index) = self.next_occupied_slot_index {
			let slot = &mut self.arena.slots[index];
			if let ArenaSlotState::Occupied {
				data,
				next_occupied_slot_index,
				..
			} = &mut slot.state
			{
				self.next_occupied_slot_index = *next_occupied_slot_index;
				if (self.filter)(data) {
					let key = Key {
						index,
						generation: slot.generation,
					};
					return self
						.arena
						.remove_from_slot(index)
						.map(|element| (key, element));
				}
			} else {
				panic!("the iterator should not encounter a free slot");
			}
		}
		None
	}
}
