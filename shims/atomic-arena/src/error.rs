//! Error types.

use std::{error::Error, fmt::Display};

/// Returned when trying to reserve an key on a
/// full [`Arena`](super::Arena).
#[derive(Debug, Clone, Copy, PartialEq, Eq, Hash)]
pub struct ArenaFull;

impl Display for ArenaFull {
	fn fmt(&self, f: &mut std::fmt::Formatter<'_>) -> std::fmt::Result {
		f.write_str("Cannot reserve an key because the arena is full")
	}
}

impl Error for ArenaFull {}

#[derive(Debug, Clone, Copy, PartialEq, Eq, Hash)]
/// An error that can occur when inserting an item
/// into an [`Arena`](super::Arena) with an existing
/// [`Key`](super::Key).
pub enum InsertWithKeyError {
	/// Cannot insert with this key because it is not reserved.
	KeyNotReserved,
	/// Cannot insert with this key because the slot index
	/// or generation is invalid for this arena.
	InvalidKey,
}

impl Display for InsertWithKeyError {
	fn fmt(&self, f: &mut std::fmt::Formatter<'_>) -> std::fmt::Result {
		match self {
			InsertWithKeyError::KeyNotReserved => f.write_str("Cannot insert with this key because it is not reserved"),
			InsertWithKeyError::InvalidKey => f.write_str("Cannot insert with this key because the slot index or generation is invalid for this arena."),
		}
	}
}

impl Error for InsertWithKeyError {}
