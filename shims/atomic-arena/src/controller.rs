use std::sync::{
	atomic::{AtomicBool, AtomicUsize, Ordering},
	Arc,
};

use crate::{ArenaFull, Key};

/// Represents that a [`ControllerSlot`] does not have a free slot
/// after it.
///
/// This is used because the next free slot variable is an
/// [`AtomicUsize`], but we still need some way to represent the
/// absence of a next free slot.
const NO_NEXT_FREE_SLOT: usize = usize::MAX;

#[derive(Debug)]
struct ControllerSlot {
	free: AtomicBool,
	generation: AtomicUsize,
	next_free_slot_index: AtomicUsize,
}

/// The shared state for all [`Controller`]s for an [`Arena`](super::Arena).
#[derive(Debug)]
struct ControllerInner {
	slots: Vec<ControllerSlot>,
	first_free_slot_index: AtomicUsize,
}

impl ControllerInner {
	fn new(capacity: usize) -> Self {
		Self {
			slots: (0..capacity)
				.map(|i| ControllerSlot {
					free: AtomicBool::new(true),
					generation: AtomicUsize::new(0),
					next_free_slot_index: AtomicUsize::new(if i < capacity - 1 {
						i + 1
					} else {
						NO_NEXT_FREE_SLOT
					}),
				})
				.collect(),
			first_free_slot_index: AtomicUsize::new(0),
		}
	}

	fn capacity(&self) -> usize {
		self.slots.len()
	}

	fn len(&self) -> usize {
		crate::vhook::point("arena.len.load");
		self.slots
			.iter()
			.filter(|slot| !slot.free.load(Ordering::SeqCst))
			.count()
	}

	fn try_reserve(&self) -> Result<Key, ArenaFull> {
		loop {
			crate::vhook::point("arena.reserve.head.load");
			let first_free_slot_index = self.first_free_slot_index.load(Ordering::SeqCst);
			if first_free_slot_index == NO_NEXT_FREE_SLOT {
				return Err(ArenaFull);
			}
			let slot = &self.slots[first_free_slot_index];
			crate::vhook::point("arena.reserve.head.cas");
			if self
				.first_free_slot_index
				.compare_exchange_weak(
					first_free_slot_index,
					slot.next_free_slot_index.load(Ordering::SeqCst),
					Ordering::SeqCst,
					Ordering::SeqCst,
				)
				.is_ok()
			{
				crate::vhook::point("arena.reserve.free.store");
				slot.free.store(false, Ordering::SeqCst);
				return Ok(Key {
					index: first_free_slot_index,
					generation: slot.generation.load(Ordering::SeqCst),
				});
			}
		}
	}

	fn free(&self, index: usize) {
		let slot = &self.slots[index];
		crate::vhook::point("arena.free.free.store");
		slot.free.store(true, Ordering::SeqCst);
		crate::vhook::point("arena.free.generation.add");
		slot.generation.fetch_add(1, Ordering::SeqCst);
		loop {
			crate::vhook::point("arena.free.head.load");
			let first_free_slot_index = self.first_free_slot_index.load(Ordering::SeqCst);
			slot.next_free_slot_index
				.store(first_free_slot_index, Ordering::SeqCst);
			crate::vhook::point("arena.free.head.cas");
			if self
				.first_free_slot_index
				.compare_exchange_weak(
					first_free_slot_index,
					index,
					Ordering::SeqCst,
					Ordering::SeqCst,
				)
				.is_ok()
			{
				break;
			}
		}
	}
}

/// Manages [`Key`] reservations for an [`Arena`](super::Arena).
#[derive(Debug, Clone)]
pub struct Controller(Arc<ControllerInner>);

impl Controller {
	pub(crate) fn new(capacity: usize) -> Self {
		Self(Arc::new(ControllerInner::new(capacity)))
	}

	/// Returns the total capacity of the arena.
	pub fn capacity(&self) -> usize {
		self.0.capacity()
	}

	/// Returns the number of items in the arena.
	pub fn len(&self) -> usize {
		self.0.len()
	}

	/// Returns `true` if the arena is empty.
	pub fn is_empty(&self) -> bool {
		self.len() == 0
	}

	/// Tries to reserve a key for the [`Arena`](super::Arena).
	pub fn try_reserve(&self) -> Result<Key, ArenaFull> {
		self.0.try_reserve()
	}

	pub(crate) fn free(&self, index: usize) {
		self.0.free(index);
	}
}
