#!/bin/bash
# usage: tools/try_patch.sh <patch.diff> <ID> [tier]   — apply a patch to /repo, run one check, always revert.
set -u
P="$(realpath "$1")"; ID="$2"; TIER="${3:-quick}"
cd /repo || exit 2
if [ -n "$(git status --porcelain --untracked-files=no)" ]; then echo "/repo has uncommitted changes; refusing"; exit 2; fi
EV=/verif/evidence/$ID.json; [ -f "$EV" ] && cp "$EV" /tmp/try_patch.$$.ev
trap 'git -C /repo checkout -- . ; git -C /repo clean -fdq crates >/dev/null 2>&1; [ -f /tmp/try_patch.$$.ev ] && mv /tmp/try_patch.$$.ev "$EV"' EXIT
git apply "$P" || { echo "patch does not apply"; exit 2; }
cd /verif && ./check "$ID" "$TIER" 2>&1 | grep -E "^(VIOLATION|KNOWN-FINDING|MACHINERY|  signature|C[0-9]+ (quick|thorough))" | head -${LINES_MAX:-12}
echo "exit=${PIPESTATUS[0]}"
