#!/usr/bin/env python3
"""Runs every seeded change in /verif/seeded against the quick check of its property (and any extra checks
given as `--also C05,C11`), recording what was detected in each seed's meta.json.
Applies each patch to /repo, runs the check(s), reverts (git checkout) - /repo must be clean and idle."""
import json, os, subprocess, sys, shutil
ROOT="/verif/seeded"
only=[a for a in sys.argv[1:] if not a.startswith('--')]
also={}
for a in sys.argv[1:]:
    if a.startswith('--also='):
        for kv in a[7:].split(';'):
            s,cs=kv.split(':'); also[s]=cs.split(',')
def sh(cmd,**kw): return subprocess.run(cmd,shell=True,capture_output=True,text=True,**kw)
assert sh("git -C /repo status --porcelain --untracked-files=no").stdout.strip()=="", "/repo not clean"
res=[]
for sid in sorted(os.listdir(ROOT)):
    d=os.path.join(ROOT,sid)
    if not os.path.isdir(d) or (only and sid not in only and sid.split('-')[0] not in only): continue
    meta=json.load(open(os.path.join(d,"meta.json")))
    prop=meta["property"]
    chk=sh(f"git -C /repo apply --check {d}/patch.diff")
    if chk.returncode!=0:
        meta["applies_to_current_tree"]=False; meta["detection_notes"]="patch no longer applies to the current (repaired) tree: "+chk.stderr.strip()[:200]
        json.dump(meta,open(os.path.join(d,"meta.json"),"w"),indent=1); print(sid,"DOES NOT APPLY"); res.append((sid,"noapply")); continue
    sh(f"git -C /repo apply {d}/patch.diff")
    detected=[]
    try:
        for c in [prop]+also.get(sid,[]):
            ev=f"/verif/evidence/{c}.json"; bak=None
            if os.path.exists(ev): bak=ev+".bak"; shutil.copy(ev,bak)
            r=sh(f"cd /verif && timeout 2400 ./check {c} quick")
            if bak: shutil.move(bak,ev)
            sigs=[l.strip()[len("signature: "):] for l in r.stdout.splitlines() if l.strip().startswith("signature: ")]
            viol=[l for l in r.stdout.splitlines() if l.startswith("VIOLATION")]
            if r.returncode==1 and viol:
                detected.append({"check":c,"tier":"quick","exit":1,"signatures":sigs[:6]})
            else:
                detected.append({"check":c,"tier":"quick","exit":r.returncode,"signatures":[]})
    finally:
        sh("git -C /repo checkout -- . && git -C /repo clean -fdq crates")
    meta["applies_to_current_tree"]=True
    meta["detected_by"]=[x for x in detected if x["exit"]==1]
    meta["not_detected_by"]=[x["check"] for x in detected if x["exit"]!=1]
    meta["what_was_run"]="tools/run_seeds.py: git -C /repo apply patch.diff; ./check <property> quick; git -C /repo checkout -- ."
    json.dump(meta,open(os.path.join(d,"meta.json"),"w"),indent=1)
    print(sid, "DETECTED by "+",".join(x["check"] for x in meta["detected_by"]) if meta["detected_by"] else "MISSED", flush=True)
    res.append((sid,bool(meta["detected_by"])))
print("summary:",sum(1 for _,r in res if r is True),"detected of",len(res))
