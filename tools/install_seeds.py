#!/usr/bin/env python3
"""Copies confirmed seeded changes from /tmp/seedout/<Cxx>/<mk>/ into /verif/seeded/<Cxx>-<mk>/ and writes meta.json."""
import json, os, shutil, sys
DESC = {
 "C01-m1": ("Delay::process chunks its input by the scratch buffer length instead of the delay line length", "a delay line shorter than the processed block (delay_time*sample_rate < internal buffer size) and a callback longer than the delay line -> audio-thread panic"),
 "C01-m2": ("Mapping::map applies the easing before clamping the input", "a parameter linked through a Mapping with a float-power easing and a modulator value outside the input range -> NaN samples"),
 "C02-m1": ("Track::process no longer clears its temp buffer after mixing a sound", "a track with both a sound and a child track, two or more chunks -> previous chunk leaks into the child branch"),
 "C02-m2": ("Renderer::process uses chunks_exact_mut: trailing partial chunk dropped", "a callback length that is not a multiple of the internal buffer size"),
 "C03-m1": ("PlaybackStateManager::pause ignored unless the state is advancing", "pause -> resume_at(later) -> pause before the start time"),
 "C03-m2": ("streaming 'waiting for data' early-out moved before the state-machine update", "decoder starved while a pause/stop/fade is in flight"),
 "C04-m1": ("StaticSound::new passes the unsliced length to Transport::new", "sliced data with reverse or an open-ended loop region"),
 "C04-m2": ("Transport::increment_position wraps only once (while -> if)", "playhead more than one loop length beyond the loop end (start after a short loop, or set_loop_region behind the playhead)"),
 "C05-m1": ("clocks/modulators/listeners advance by a full internal buffer on a short trailing chunk", "callback size not a multiple of the internal buffer size"),
 "C05-m2": ("Clock::update skips the speed parameter update while the clock is not ticking", "set_speed with a tween/delay while the clock is stopped or paused, then start"),
 "C06-m1": ("Parameter::interpolated_value returns the raw value when stagnant", "the last chunk of a tween to a fixed target, observed through interpolated_value"),
 "C06-m2": ("Easing::InOutPowi second half rewritten; wrong for even powers", "even-power InOutPowi observed in the second half of the tween"),
 "C07-m1": ("CommandReader::read checks updated() then read(): a write landing between them is lost", "a write racing into the window between the reader's two atomic steps"),
 "C07-m2": ("Clock::reset also clears ticking", "stop() then start() between the same two callbacks"),
 "C08-m1": ("play() reserves the sound slot before into_sound(); slot leaked when into_sound fails", "a fallible SoundData failing while a slot is free"),
 "C08-m2": ("SelfReferentialResourceStorage::remove_unused skips the neighbour of a removed item", "two adjacent clocks/modulators/listeners dropped between the same two callbacks"),
 "C09-m1": ("backward seek on loop wrap assumes the decoder landed exactly on the requested frame", "loop start not aligned to the decoder's seek granularity, small packets, after the first wrap"),
 "C09-m2": ("StreamingSound::next_frames ignores the wrapped half of the frame ring", "more than 16381 frames consumed from the ring (long stream / long loop)"),
 "C10-m1": ("decode-error check moved below the 'not advancing' early returns", "decode error arriving while the sound is paused / waiting"),
 "C10-m2": ("decoder thread checks 'ring full' before 'sound stopped'", "stream longer than the 16384-frame ring, decoder far ahead, then stop"),
 "C11-m1": ("Mixer passes the whole scratch buffer to send tracks on a short chunk", "send track with a stateful effect and a callback not a multiple of the internal buffer size"),
 "C11-m2": ("Compressor envelope uses the chunk duration instead of the frame duration", "compressor above threshold rendered with two different chunk lengths"),
 "C12-m1": ("pause dropped while a scheduled resume is pending (track)", "pause -> resume_at(later) -> pause on a track"),
 "C12-m2": ("persistent parent track removed while a child track is alive", "persist_until_sounds_finish parent without sounds, parent handle dropped before the child's"),
 "C13-m1": ("Delay runs its feedback effects over the whole scratch buffer", "delay with a stateful feedback effect and a process call shorter than the internal buffer"),
 "C13-m2": ("EQ filter derives its 'a' coefficient from Decibels::as_amplitude (0 at -60 dB)", "EQ gain at or below -60 dB -> NaN / muted"),
 "C14-m1": ("high-shelf EQ uses the low-shelf corner scaling", "HighShelf with non-zero gain probed near the corner"),
 "C14-m2": ("reverb stereo-width cross-mix updated in place", "stereo_width other than 1.0"),
 "C15-m1": ("distance attenuation loses its upper clamp", "emitter beyond max_distance with an even-power / float-power attenuation curve"),
 "C15-m2": ("nested tracks inherit the wrong spatial context", "non-spatial sub-track under a spatial track using listener distance"),
 "C16-m1": ("send-track effects never receive the sample-rate change", "send track with a rate-dependent effect and a rate change after creation"),
 "C16-m2": ("Delay::init stretches short delays to one internal buffer", "delay_time*device_rate < internal buffer size (low device rates)"),
 "C17-m1": ("removal of a modulator uses swap_remove: update order scrambled", "modulator->modulator chain, an older modulator dropped"),
 "C17-m2": ("LFO phase wrap subtracts only one cycle per update", "pulse waveform with frequency*chunk duration >= 1, or start phase beyond one turn"),
 "C18-m1": ("SymphoniaDecoder::seek reports the requested timestamp instead of the actual one", "start/seek position not on a packet boundary of a real file"),
 "C18-m2": ("SymphoniaDecoder::decode maps end-of-stream to an empty chunk", "streaming a truncated file up to the truncation point -> decoder thread spins"),
 "C19-m1": ("ClockTime ordering compares ticks as f64 + fraction", "large tick counts (>= 2^40) with different fractions"),
 "C19-m2": ("Mapping::map clamps after the easing", "non-linear easing with an input outside the input range"),
}
src="/tmp/seedout"; dst="/verif/seeded"
for c in sorted(os.listdir(src)):
    p=os.path.join(src,c)
    if not os.path.isdir(p): continue
    for m in sorted(os.listdir(p)):
        d=os.path.join(p,m); sid=f"{c}-{m}"
        cf=os.path.join(d,"confirm.json")
        if not os.path.exists(cf): print("unconfirmed",sid); continue
        conf=json.load(open(cf))
        ok = conf.get("applies") and conf["stock_suite_with_patch"].startswith("pass") and conf["demo_with_patch"]=="fail" and conf["demo_without_patch"]=="pass"
        if not ok: print("NOT KEPT",sid,conf); continue
        out=os.path.join(dst,sid); os.makedirs(out,exist_ok=True)
        old={}
        if os.path.exists(os.path.join(out,"meta.json")): old=json.load(open(os.path.join(out,"meta.json")))
        for f in ("patch.diff","demo_test.rs","demo_test.patch","notes.md"):
            if f=="patch.diff" and old.get("rebased"): continue  # keep a patch that was re-created against the repaired tree
            if os.path.exists(os.path.join(d,f)): shutil.copy(os.path.join(d,f),out)
        what,needs=DESC.get(sid,("",""))
        old={}
        if os.path.exists(os.path.join(out,"meta.json")): old=json.load(open(os.path.join(out,"meta.json")))
        meta={"id":sid,"property":c,"change":what,"needs_to_manifest":needs,
              "origin":"written by an independent sub-agent given only the property text and a scratch worktree",
              "confirmed":{"what_was_run":"tools/confirm_seeds.sh in a scratch worktree: `cargo test -p kira --offline` with the patch; the demonstration with and without the patch", **conf},
              "detected_by":old.get("detected_by",[]),"detection_notes":old.get("detection_notes","")}
        json.dump(meta,open(os.path.join(out,"meta.json"),"w"),indent=1)
        print("kept",sid)
