#!/usr/bin/env python3
"""Regenerates /verif/MANIFEST.json from the table below and validates it against the schema.
Run after adding or removing a check:  python3 tools/gen_manifest.py"""
import json, subprocess, sys, os

ROOT = "/verif"

# id -> dict(level, technique, text, note, design_ref, thorough(bool))
CHECKS = {}

def check(id, level, technique, text, note, design_ref, thorough=True):
    CHECKS[id] = dict(level=level, technique=technique, text=text, note=note, design_ref=design_ref, thorough=thorough)

check("C19", "exploration",
      "exhaustive range enumeration: all 2^32 f32 bit patterns (decibels, panning) + full boundary lattices of f64, against f64 reference laws",
      "Every finite f32 bit pattern of decibels and of panning is evaluated on the real functions (thorough; a 3/256 sub-lattice plus neighbourhoods of the special points in quick) in ordered traversal, checking monotonicity, fixed points, clamping, power law and agreement with an f64 reference; the f64-valued conversions, ClockTime arithmetic, easings and mappings are decided on full products of boundary lattices. Exhaustive over the stated finite spaces; this is bounded exhaustive enumeration of inputs, the model-checking family's 'all input shapes up to a bound'.",
      "f64 reference uses the platform libm; f64 functions are decided on lattices, not on all 2^64 patterns; tolerance for 10^(dB/20) grows with |dB| because the f32 division dB/20 is part of the documented formula.",
      "DESIGN.md §3 C19")

check("C06", "model_checking",
      "exhaustive operation-sequence enumeration of the real Parameter<T>/Tweener against a reference tween model (all update-step partitions x overlapping set() placements), plus documented laws; engine scenes rendered under a fixed set of device-callback partitions",
      "Every sequence of <= 6 updates with dt in {0.5,1,2} (all 3^6 partitions), for 11 tweenable types and the tweener modulator, 8 start modes, 5 durations (incl. 0 and shorter than one update), 7 easings, ordered value pairs and every placement of a second (thorough: third) overlapping set(), is executed on the real code in lock-step with an independent reference model; value, finished-flag, chunk continuity (previous_value/interpolated_value), range, exact end value, start-time and partition-independence laws are asserted after every update. Bounded exhaustive: all histories up to the stated depth over the stated alphabet.",
      "time steps are binary-exact; Quat compared with an f64 slerp reference (1e-5 rad), other types bit-exactly; behaviour of a clock pausing in mid-tween is not fixed by the statement and not demanded; Value::FromModulator targets are covered under C17.",
      "DESIGN.md §3 C06")

check("C03", "model_checking",
      "exhaustive command-sequence enumeration (depth-bounded, 13-letter alphabet, plus every ordered pair of life-cycle commands issued in one callback interval) of the real static/streaming Sound objects in lock-step with a 7-state reference machine",
      "All command sequences of length <= 4 (quick) / 6 static, 5 streaming (thorough) over {none, pause(0/2s), resume(0/3s), resume_at(delayed/clock), stop(0/2s eased), seek_to, set_volume tween, clock advances, clock removed}, each letter followed by a callback, for static sounds, streaming sounds with the decoder kept ahead and streaming sounds with a starved decoder, looping-DC and finite shapes, own start time immediate/delayed/clock, chunk sizes 1 and 3, run against PlaybackModel: reported state after every callback, per-frame gain envelope, exact silence and frozen position in Paused/WaitingToResume/Stopped, fade timing within one callback, monotone gain, Stopped absorbing, natural end window; plus a manager pass for unloading at the next callback and slot reuse with a capacity-1 track.",
      "decoder thread paced deterministically through the verif-hooks gate; natural end may be reported up to 4 source frames late; transitions the statement leaves open (e.g. resume during Stopping) follow the documented command semantics; whether a seek issued within the resampler look-ahead of the end still takes effect is left to C04.",
      "DESIGN.md §3 C03")

check("C04", "model_checking",
      "exhaustive configuration-lattice enumeration of the real StaticSound against an ideal transport + 4-point Hermite reference; command positions enumerated exhaustively",
      "Every static sound of length 0..8 (10 thorough) x every slice x every start position x every valid loop region x reverse x 7 playback rates (positive and negative) x 4 device/sound rate pairs x 4 chunk sizes is rendered on the real code and compared frame by frame with the reference (bit-exact on integer steps, 2e-6 otherwise; index-coded frames, poison outside the slice), including end-of-sound timing, reported position, no latency; seek_to / seek_by / set_loop_region are issued at every callback index 0..6 (ordered pairs in thorough) and judged by the landing / shift / new-loop laws.",
      "continuous rate values are represented by the 7-point lattice; regions with end <= start or outside the data are C01's subject; a start position at/after the end is only required not to panic or read outside the slice.",
      "DESIGN.md §3 C04")

check("C08", "model_checking",
      "exhaustive create/drop/finish/callback history enumeration of the real manager against a counting model, per resource kind and capacity; stale-id scenarios; preemption-bounded DFS over real thread interleavings of the create path with the audio thread's remove-and-add step at atomic-operation granularity",
      "All histories of length <= 7 (9 thorough) over {create, drop oldest handle, drop newest handle, finish oldest sound, callback} for 12 resource kinds (probe / static / fallible sounds on main and sub tracks, sub-tracks, nested sub-tracks, send tracks, clocks, tweeners, LFOs, listeners, spatial tracks) x capacity {0,1,2} are executed on the real AudioManager in lock-step with a pending/adopted/marked counting model: creation succeeds exactly when the model count is below capacity (else the documented error, no panic), num_*() equals the model count after every step, removal at the next callback (the one after when not yet adopted), no allocation/free or probe Drop inside a callback; five stale-id scenarios reuse a slot and check that old ClockId / ModulatorId / ListenerId / SendTrackId / track do not resolve to the newcomer.",
      "E2 part: game(create; create) || audio(2 callbacks, the first removing a resource) for sounds, clocks and sub-tracks at capacity 1 and 2, preemption bound 2 (3 thorough), switching before every atomic operation of rtrb / atomic-arena and at kira's res.* sync points, followed by a sequential epilogue that checks no panic, empty count after everything is finished and full slot reuse for three rounds; listener count is only observable through creation success (no num_listeners()).",
      "DESIGN.md §3 C08")

check("C05", "model_checking",
      "exhaustive clock-command history and scheduling-grid enumeration against an exact-arithmetic clock model; preemption-bounded DFS over real thread interleavings (reader / game thread vs audio thread) at the granularity of single atomic loads and stores",
      "E1: all sequences of <= 5 (6 thorough) letters over {start, pause, stop, five speed changes incl. tweens and one scheduled on the clock's own time, callbacks of 1/3/4 frames} x sample rate {4,8} x internal buffer {1,2,4} with exact tick arithmetic (binary-exact dt) and the handle's time/ticking after every step; scheduling grid of static/streaming sound starts, volume-tween starts and resume_at x 12 target times x 3 speeds x all compositions of 12 frames into callbacks of {1,2,3,5} x 3 buffer sizes x clock paused mid-way: the thing must begin exactly in the buffer in which the ticking clock reaches the time, and a waiting sound stops when the clock is removed. E2: every interleaving (preemption bound 2 quick, unbounded thorough) of a thread reading time() three times (or time; stop; time; time) with the audio thread running two callbacks, switching before each atomic operation; every read must be a time the clock had and reads must not go backwards.",
      "sequentially consistent interleavings only (kira uses SeqCst on these words); resume_at may become audible one internal buffer after it begins (an instant fade-in needs one parameter update); continuous speeds are represented by the listed lattice.",
      "DESIGN.md §3 C05")

check("C07", "model_checking",
      "stateless exploration of real thread interleavings (iterative context bounding, DFS over schedules) at the granularity of single atomic operations inside the command channel, plus exhaustive per-command-kind differential enumeration",
      "E2: seven two-thread harnesses (generic command channel with k=1,2,3 writes vs three reads; two channels of different kinds; StaticSoundHandle::set_volume x2 vs three callbacks; ClockHandle::stop vs callbacks; play + set_volume before the first callback vs callbacks) are explored exhaustively over all schedules (unbounded for the channel harnesses, preemption bound 3-5 for the manager harnesses), with scheduling points before every atomic operation of triple_buffer / rtrb / atomic-arena (instrumented copies patched in by the harness) and at kira's verif sync points; each execution is judged for: applied sequence is a duplicate-free subsequence of the written one, payload redundancy intact (not torn), a write that returned before a read began is visible to it (not late), last write in force at the end (not lost). E1: for each of 58 command kinds of all built-in handles (sounds, tracks, sends, spatial, listener, clock, LFO, tweener, all effect parameters): command before the first callback equals building with the value, a burst equals its last command, the effect appears in the next callback and not earlier/later, commands of different kinds/resources do not interfere.",
      "sequentially consistent interleavings of atomic operations; weak-memory effects inside triple_buffer are not modelled; streaming seek / loop-region commands that are read by the decoder thread are exercised under C09/C10.",
      "DESIGN.md §3 C07")

check("C02", "model_checking",
      "exhaustive enumeration of small mixer configurations and add/remove/pause/tweened-volume histories on the real manager in lock-step with a reference evaluation of the documented signal flow (probe sounds and probe effects log every process call); preemption-bounded DFS over real thread interleavings of building a routed branch with the audio thread's adoption step",
      "All 9 forests of <= 3 sub-tracks x internal buffer {1,2,3,4} x {0,1,2} send tracks x every subset of {main, tracks} carrying an index-coded probe sound x one perturbation at a time (volume -6.02 / -60 dB on each track, main, send, route; all -6 dB; two-buffer volume tween; three order-sensitive probe-effect chains on each track, main, send; two sounds on one track) x callback patterns from {1,3,4,7} frames, plus every history of length <= 3 (4 thorough) over {play sound on main / each track, drop track handle, finish sound, pause, resume, drop send handle}. After every callback the rendered frames are compared with the reference sum (exact silence demanded where the reference is silent), and every probe sound / effect must have been asked for exactly the frames of the callback, in order, in slices <= the internal buffer, with dt = 1/sample rate; monitors: no panic, no allocation, output well-formed, no destruction on the audio thread.",
      "trees of <= 3 sub-tracks stand for all trees; f32 summation order is not specified, so comparison is within 4e-6 (signals are >= 2^-7); built-in effects are replaced by order-sensitive probe effects here (their DSP is C13/C14's subject).",
      "DESIGN.md §3 C02")

check("C12", "model_checking",
      "exhaustive history enumeration on real track trees in lock-step with a tree-freeze / removal reference model (index-coded sounds make positions audible); preemption-bounded DFS over real thread interleavings of TrackHandle::state() reads with the audio thread's state publication",
      "Three tree shapes (chain of 2, chain of 3, parent with two children), every track carrying an index-coded looping probe sound, x 3 persistence variants x every history of length <= 3 (4 thorough) over {none, start clock, remove clock} and per track {pause instant / 2 frames, resume instant / 2 frames, resume_at delayed, resume_at on a clock, drop handle, finish sound, add nested child, add nested child then drop the handle, play sound then drop the handle}; each letter is followed by a 3-frame callback with internal buffer 2. After every callback the rendered audio is compared exactly with the reference (a frozen subtree is silent and every sound continues with exactly the next index after a resume; removal at the next callback / the one after if not adopted / never while a descendant track is alive / not before a persisting track's sounds finished) and TrackHandle::state() of every live handle is called inside catch_unwind and compared with the model's state.",
      "what a track whose scheduled resume can never happen should report is not fixed by the statement beyond 'one of the five states' (reference: Paused); partition independence of these behaviours is C11's subject.",
      "DESIGN.md §3 C12")

check("C11", "exploration",
      "exhaustive enumeration of callback partitions (all 2^7 compositions of 8 frames) x internal buffer sizes x channel counts per fixed-parameter scene, each rendering compared with a reference rendering",
      "28 fixed-parameter scenes (static sounds at several rates, loop, pan, reverse; streaming sounds; nested tracks; send tracks with stateful effects; every built-in effect including delays shorter than a chunk and delays with effects in the feedback loop; spatial track) x internal buffer size {1,2,3,4,5,7,8,16,64,4096} x ALL 128 compositions of 8 frames into callbacks x channels {1,2,3}, plus 200-frame (700 for the reverb) runs with partitions {all 1, single callback, 7s, ibs-1, ibs+1, N-1 then 1, 3 then rest} (thorough: more). Every rendering on the real mixer must equal the reference rendering (one callback, internal buffer = N): bit-for-bit for sound / mix / volume scenes, within 1e-6 for recursive effects and the spatial scene; mono = mean, extra channels silent; monitors: no panic, no allocation.",
      "scenes exclude what the statement excludes (tweens in progress, commands in flight, delayed / clock-scheduled starts, modulators); exhaustive over partitions of 8 frames, representative partitions beyond.",
      "DESIGN.md §3 C11")

check("C09", "model_checking",
      "exhaustive differential enumeration: a streaming and a static Sound of the same audio run in lock-step over a full product of settings, decoder scripts and command histories (the static implementation is the reference model; the real decoder thread is paced deterministically)",
      "Audio length {1,2,3,5,8} (1..8 thorough) x rate {1,0.5,2,1.5,0} x packet pattern {1s,2s,3s,one packet,1-3-2} x seek granularity {1,3,8} x every start position x slice {none, inner} x loop {none, whole, lattice regions incl. ones crossing packet boundaries} x chunk {1,3} x every command history of length <= 1 (2 thorough) over {none, volume tween, panning, pause 0/2f, resume, stop, rate change}; after every callback: output frames equal (bit-exact on integer steps, 1e-6 otherwise), playback states equal, finished within one callback of each other, positions within one frame until the audio ends. Four long runs consume > 17000 frames of a looping stream so the wrap-around of the decoder's 16384-frame ring is crossed.",
      "the decoder keeps ahead (assumption of the statement), enforced through the verif-hooks gate; the end of the sound may be observed one callback apart (different look-ahead windows).",
      "DESIGN.md §3 C09")

check("C10", "fault_enumeration",
      "exhaustive enumeration of fault positions x terminal events x decoder paces with the real decoder thread paced deterministically; preemption-bounded DFS over decoder-thread / driver-thread interleavings",
      "E3: {finite, looping} 6-frame stream x {no fault, k-th decode call fails k=1..8, k-th seek call fails k=1..4} x terminal event {none / natural end / failure, stop(0) and stop(2 frames) before callback 0..3, rejected by a full track, track handle dropped before callback 0..3, manager dropped before callback 0..3} x placement {main, sub-track, paused sub-track, paused sound} x decoder pace {ahead, lagging, stalled then ahead} = 4914 scenarios on the real manager; afterwards the decoder thread is granted up to ring-capacity + 64 further loop iterations: it must have exited and released its decoder, must not call a failing decoder repeatedly, the sound must be Stopped by the callback after the error, unloaded, silent afterwards, the first error poppable, and heard frames must be source frames in order (gaps only). E2: six driver || decoder harnesses (natural end, stop(0), stop(2f), 3rd decode fails, track dropped, seek + set_loop_region) explored over all schedules with <= 2 (3 thorough) preemptions, switching at the decode-loop gate, the shared flags, the frame ring's and the command channel's atomic operations, with a fairness bound of 3 decoder iterations per turn.",
      "'bounded time' is measured in decoder-loop iterations of a closed system; a stop() issued while the sound's track is paused is frozen with the track (C12) and not yet terminal.",
      "DESIGN.md §3 C10")

check("C13", "exploration",
      "exhaustive enumeration of parameter-corner lattices x sample rates x input signals x ALL 128 compositions of 8 frames into process calls on the real Effect objects, judged by algebraic laws",
      "1296 lattice points over filter (4 modes), EQ (3 kinds), delay (plain / filter / delay nested in the feedback loop), reverb, compressor, distortion (2 kinds), volume and panning control (each parameter at both documented edges, an interior value and beyond the internal clamp) x sample rate {8000, 44100, 48000, 192000} (+22050, 96000 thorough) x 7 input signals (impulse, step, DC, full-scale alternating, ramp, 1e-40 denormal, fixed noise table): finiteness over 2^12 (2^16) frames, dry/neutral identity bit-for-bit, silence in => exact silence out from a fresh effect, superposition and scaling within 1e-4 of peak for the linear effects, and exact equality of the output under every one of the 128 compositions of 8 frames (on warm and on fresh effects) plus fixed partitions of 256 frames.",
      "Value::Fixed parameters; nested feedback loop gains below 1; the linearity window is 512 frames because f32 state-variable filters drift over much longer runs.",
      "DESIGN.md §3 C13")
check("C14", "exploration",
      "exhaustive enumeration of parameter lattices x sample rates x probe signals on the real Effect objects, compared sample by sample with independent reference implementations of the cited algorithms and with analytic transfer facts",
      "Filter (4 modes x cutoff x resonance x mix), EQ (3 kinds x frequency x gain x q), delay (time x feedback x mix x feedback effect), reverb (feedback x damping x width x mix), compressor (threshold x ratio x attack x release x makeup x mix x level), distortion (kind x drive x mix), volume and panning control, each at sample rates {8000, 44100, 48000, 192000} (+22050, 96000): (a) sample-by-sample agreement within 1e-5 of peak with references written from the cited sources (Simper SVF, Cytomic SvfLinearTrapOptimised2 bell/shelves, Freeverb, integer delay line with feedback effects, dB-domain compressor, clip curves); (b) facts on kira's output alone: steady-state sine gain = analytic |H| +-0.1 dB at DC, 10 Hz ... 0.45 sr and Nyquist, unity pass band, requested EQ gain at centre/shelf and half gain at the corner, echoes at exact multiples of the delay with amplitude feedback^k, reverb energy decay, compressor static curve and 1-1/e time constants, distortion curves and small-signal transparency, 10^(dB/20), constant-power pan.",
      "decides the property on the stated lattices, not on the continuum; references share the precision regime of the cited designs (f64 coefficients, f32 state).",
      "DESIGN.md §3 C14")
check("C15", "exploration",
      "exhaustive enumeration of a position / orientation / range / curve / strength lattice and of listener add/drop histories on the real mixer, judged by metamorphic laws between renderings",
      "343 (729 thorough) emitter positions x listener positions x 6 (9) orientations x 3 (5) distance ranges x 4 (9) attenuation curves x 5 (6) strengths, each scene rendered as itself, mirrored through the listener's median plane and under 5 (8) rigid motions; extreme scenes (1e6 coordinates, emitter at an ear, coincident), degenerate ranges, 7 listener histories (stale id, slot reuse, dropped before / after adoption, mid-run, other listener dropped), Value::FromListenerDistance on an effect / track volume in 6 nestings, nested spatial tracks, position / orientation / strength tweens. Laws: level = attenuation(distance) x ear gains; attenuation 1 inside min, 0 at/beyond max, non-increasing, equal for equal distance, matching the configured curve; ear gains in [1-s, 1], emitter-side ear not quieter; mirror swaps L/R; rigid motion invariance; strength 0 passes stereo through; no listener => exact silence; mapped parameter follows the distance; everything finite.",
      "relational laws are evaluated where f32 resolves the 0.1-unit ear offset; a listener dropped before the audio thread picked it up exists during exactly one callback (resource life cycle, C08).",
      "DESIGN.md §3 C15")
check("C16", "model_checking",
      "exhaustive enumeration of device rates x change moments per scene, of all orders of {create track, change rate, callback} up to a depth, and preemption-bounded DFS over the create-track || change-rate interleavings",
      "Scene grid: 7 scenes (sound duration and pitch, delayed start, clock-scheduled start and clock reading, volume tween, delay echo on main / sub / nested / send track, filter corner, EQ centre) x device rates {8000, 11025, 16000, 44100, 48000, 96000, 192000} (+5 thorough) x second rate x change before callback 0..4 or never x internal buffer {32, 128}; event times in true seconds must agree across rates within a frame plus a buffer. Histories: every sequence of length <= 4 (5) over {callback, change rate, 7 public track-creation paths}, each track carrying a probe effect and a delay with a probe in its feedback loop: on every process call the last rate an effect was told must equal the rate in force and the echo must arrive at delay_time. E2: game thread adds a track while the audio thread changes the rate and runs a callback, preemption bound 2 (3).",
      "streaming sounds use the same dt stepping (C09); echoes in flight at the moment of a rate change are not judged (kira clears the delay line).",
      "DESIGN.md §3 C16")
check("C17", "model_checking",
      "exhaustive enumeration of LFO / tweener configurations and handle operations against reference oscillator and tween models, of modulator -> parameter chains through the real renderer, of all add/drop/callback histories up to a depth against a counting model, and preemption-bounded DFS over real thread interleavings of (add modulator; play linked sound) with the audio thread's adoption step",
      "Direct LFO: waveform x frequency x amplitude x offset x phase x dt x one of 10 handle operations at 3 positions (pairs in thorough) over 12 updates vs LfoModel; direct tweener vs a tween reference; Mapping::map over ranges (incl. inverted) x easings x inputs for 4 value types; chains through the real renderer: 9 targets (sound volume, track volume, main volume, effect parameter, clock speed, LFO offset / amplitude / frequency, two-stage chain) x internal buffer {1,3,8} x 10 sources x 7 mappings x link mode x drops: the linked parameter in chunk c must equal mapping(modulator value read in chunk c) and hold after the source is removed; histories: every sequence of length 7 (9) over {add probe modulator, drop oldest / newest / middle, callback}: each modulator updated exactly once per chunk with the chunk's dt, older sources already updated when read, removed / stale ids read None.",
      "sample rate 8 Hz makes all times dyadic; values within 1e-9 of a waveform discontinuity are accepted on either side.",
      "DESIGN.md §3 C17")
check("C18", "fault_enumeration",
      "exhaustive enumeration of PCM WAV encodings from an independent encoder, of seek sequences on a position lattice, and of every truncation length and every single header-byte corruption (x 255 values) of base files, on the real loader and the real streaming path",
      "Static load of generated WAVs: {u8, s16, s24, s32, f32, f64} x channels {1,2,3} x 8 (13) lengths x 2 (6) rates x 5 chunk layouts: frames, count and rate must equal the independent conversion, mono duplicated, >2 channels the documented error; streaming: every start position and every sequence of <= 2 (3) seeks over a lattice incl. packet boundaries must reproduce reference[pos..]; shipped .ogg/.wav assets: streaming == static (differential); faults: every truncation length of 12 (16) files and every header byte set to each of the 255 other values (payload bytes too in thorough), each loaded and streamed: error, or a prefix / no more than the file can hold, never a panic, a hang or a dead worker (4 GiB memory cap per worker, progress tracking attributes a dying worker to its case).",
      "the decoder thread is paced one iteration per rendered frame through the gate hook; compressed assets have no independent decoder (differential only).",
      "DESIGN.md §3 C18")

check("C01", "exploration",
      "exhaustive enumeration of boundary-value lattices of every builder / handle argument (incl. every effect setter tweened between every ordered pair of lattice values) and of API histories up to a depth, every callback executed under monitors (panic, watchdog, allocation counter, sample well-formedness); the same monitors run inside the E2-explored callbacks of C02/C05/C07/C08/C12/C17",
      "F1: {static, streaming} sounds x length {0,1,2,5} x slice {none, empty, inner, inverted, beyond the data} x loop region {none, whole, empty, inverted, beyond, end==len} x start position {0,1,len-1,len,len+3} x reverse x rate {1,-1,0,0.5,3} x 18 handle commands with boundary arguments (negative / beyond-the-end seeks, empty / inverted set_loop_region, -60 dB, +40 dB, pan +-7, rate +-0, 1e9 s tweens); FX: 14 extreme finite values (1e9, 1e300, +-1e12 s, +-1e30 dB, 1e15 samples) x {static, streaming}; F2: every parameter of every built-in effect (and track volume) taken one at a time through {0, -1, 1, 2, documented edges, Nyquist, sample rate, 1e-30, +-1e30, -60 dB +-1 ulp, zero / 1 ns durations} x sample rate {8000, 44100, 192000} x 5 input signals; F3: all API histories to depth 4 (5) over 16 letters (sounds, streaming sounds, nested / send / spatial tracks with effects, clocks, tweeners, LFO-linked volumes, listeners, drops, stops, pauses, callbacks) with all capacities 1 and with all capacities 0; F4: every depth-3 history with 1..8 channels (mono = mean of the stereo rendering, extra channels silent). Every callback: no panic, returns within the watchdog time, zero allocations / frees on the audio thread, every sample finite and in [-1, 1].",
      "'promptly' = terminates within 2-4 s for <= 16 frames and does no allocation; wall-clock latency is not measured; calls happen between callbacks here (their interleavings with callbacks are C07/C08's E2 part); panics raised on the caller's thread by builders for invalid arguments are counted, not judged.",
      "DESIGN.md §3 C01")

NOT_YET = {}

def main():
    props = [json.loads(l) for l in open(f"{ROOT}/properties.jsonl")]
    ids = [p["id"] for p in props]
    checks = []
    for pid in ids:
        if pid not in CHECKS:
            continue
        c = CHECKS[pid]
        entry = {
            "property_id": pid,
            "quick_cmd": f"./check {pid} quick",
            "evidence_file": f"/verif/evidence/{pid}.json",
            "replay_cmd_template": f"./check {pid} --replay {{path}}",
            "engine": "kvcheck",
            "level_claimed": {"category": c["level"], "text": c["text"], "design_ref": c["design_ref"]},
            "level_note": c["note"],
            "technique": c["technique"],
        }
        if c["thorough"]:
            entry["thorough_cmd"] = f"./check {pid} thorough"
        checks.append(entry)
    na = []
    for pid in ids:
        if pid not in CHECKS:
            na.append({"property_id": pid, "reason": NOT_YET.get(pid, "check not built yet in this snapshot of /verif (see DESIGN.md §4.1 build order); not claimed until its exhaustive exploration exists")})
    hooks_commits = subprocess.run(["git", "-C", "/repo", "log", "--format=%H", "--grep=^verif:"], capture_output=True, text=True).stdout.split()
    manifest = {
        "version": 1,
        "setup_cmd": "./setup",
        "hooks": {
            "guard": "cargo feature `verif-hooks` of crate kira",
            "enable": "the harness crate /verif/harness depends on kira by path with features = [\"wav\",\"ogg\",\"mp3\",\"flac\",\"verif-hooks\"]; ./check rebuilds it (cargo build --release --offline) from /repo's working tree before every run",
            "baseline_off_cmd": "cd /repo && cargo test --workspace --no-fail-fast --offline",
            "source_commits": hooks_commits,
            "add_only": True,
        },
        "engines": [
            {"name": "kvcheck", "path": "/verif/harness", "serves_properties": [c["property_id"] for c in checks],
             "kind_free_text": "Rust harness linked against the real kira crate: E1 exhaustive operation-sequence / configuration-lattice enumeration against reference models, E2 preemption-bounded DFS over real thread interleavings at kira's sync-point hooks, E3 fault-position enumeration; cases sharded over 16 worker processes with watchdog"},
        ],
        "checks": checks,
        "not_applicable": na,
        "notes": "exit 0 = property held on everything explored (KNOWN-FINDING lines for listed findings), 1 = VIOLATION line(s), 2 = machinery error (no verdict). known findings: /verif/known_findings.json. Evidence is rewritten by every run.",
    }
    if not na:
        del manifest["not_applicable"]
    open(f"{ROOT}/MANIFEST.json", "w").write(json.dumps(manifest, indent=1) + "\n")
    try:
        import jsonschema
        jsonschema.validate(manifest, json.load(open("/root/.vp/MANIFEST.schema.json")))
        print("MANIFEST.json valid;", len(checks), "checks,", len(na), "not claimed")
    except ImportError:
        print("jsonschema not importable here; wrote MANIFEST.json unvalidated")

if __name__ == "__main__":
    main()
