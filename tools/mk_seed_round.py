#!/usr/bin/env python3
"""usage: tools/mk_seed_round.py <round> [ids...]
Creates scratch worktrees /tmp/seed<round>/<Cxx> of /repo HEAD and prompt files /tmp/seedp/prompt<round>_<Cxx>.txt for
independent sub-agents. The prompt contains ONLY: the generic brief, the property's title / statement / quantifier, and
one-line descriptions of the changes earlier rounds produced for that property (so that the new ones differ).
Nothing from /verif is readable from the worktree."""
import json, os, subprocess, sys
rnd = sys.argv[1]; only = sys.argv[2:]
props = {json.loads(l)["id"]: json.loads(l) for l in open("/verif/properties.jsonl")}
os.makedirs("/tmp/seedp", exist_ok=True)
for pid, p in props.items():
    if only and pid not in only: continue
    w = f"/tmp/seed{rnd}/{pid}"
    subprocess.run(f"git -C /repo worktree remove --force {w} >/dev/null 2>&1; rm -rf {w}; mkdir -p /tmp/seed{rnd} && git -C /repo worktree add -q {w} HEAD && cp /repo/Cargo.lock {w}/", shell=True, check=True)
    prev = []
    for d in sorted(os.listdir("/verif/seeded")):
        if d.startswith(pid + "-"):
            m = json.load(open(f"/verif/seeded/{d}/meta.json"))
            prev.append(f"- {m['change']} (needs: {m['needs_to_manifest']})")
    text = f"""You are working in a scratch git worktree of the Rust game-audio library `kira` (tesselode/kira 0.10.5) at {w} (the library crate is in crates/kira; the workspace builds and tests OFFLINE only: always pass `--offline` to cargo; Cargo.lock is already in place). Work ONLY inside {w}. Do not read, list or touch /repo, /verif or any other /tmp/seed* directory. Do not commit anything and do not use `git stash` (the stash is shared between worktrees): to toggle your change use `git diff > /tmp/...` / `git apply` / `git apply -R` or `git checkout -- <file>`.

Your job is to play the role of a developer who accidentally introduces a subtle bug. Craft a realistic change to kira's source (crates/kira/src/**) that BREAKS the property below, while
 (a) the crate still compiles (`cargo build -p kira --offline`) with no new errors,
 (b) every existing test still passes: `cargo test -p kira --offline` (92 unit tests + integration tests in crates/kira/tests + doctests) — run it and confirm,
 (c) the breakage needs something SPECIFIC to manifest — a particular interleaving of threads, a fault at a particular point, a multi-step sequence of operations, an unusual (but valid, finite) input or configuration, a particular buffer/callback size, or two cooperating code sites that each look fine alone. Changes that ordinary use would expose at once (e.g. all sound is silent, everything panics) are NOT wanted,
 (d) the change looks like a plausible mistake or plausible "optimisation/refactor" (off-by-one, wrong comparison, wrong order of two steps, missing reset/clear, stale cached value, early return that skips bookkeeping, wrong buffer length, swapped arguments, a check dropped in one of two twin code paths, etc.), not sabotage; keep it small (a few lines).
Ignore (and do not modify) lines guarded by `#[cfg(feature = "verif-hooks")]` and the file src/verif.rs; they are inert instrumentation.

THE PROPERTY TO BREAK
{pid} — {p['title']}

Statement: {p['statement']}

Quantified over: {p['quantifier']['text']}


Deliverables — produce ONE or TWO changes (one really good, deep one is better than two shallow ones). Prefer a change whose manifestation needs a race between two threads, a multi-step history, a rarely used combination of features (e.g. spatial tracks, send tracks, nested tracks, streaming sounds, clocks, modulators, reverse playback, slices, loop regions, sample-rate changes, more or fewer than two output channels), or two cooperating sites. Look in corners of the code that the earlier changes (listed below) did not touch. For change k (k = 1, 2) create the directory {w}/out/m<k>/ containing:
  - patch.diff : `git diff` of ONLY the source change to crates/kira/src (not the demonstration test), applicable with `git apply` from the repository root;
  - a demonstration: a self-contained Rust test (preferably an integration test file to be dropped into crates/kira/tests/, using only kira's public API, e.g. kira::backend::mock::MockBackend, AudioManager, a custom kira::backend::Backend that hands out the Renderer, kira::sound::Sound / SoundData, kira::effect::Effect/EffectBuilder, kira::info::MockInfoBuilder, kira::Parameter ...; a `#[cfg(test)]` unit test patch is acceptable if the public API cannot reach it) that FAILS with the change applied and PASSES on the unmodified tree. Save it as demo_test.rs (plus demo_test.patch if it is a unit-test patch) and state the exact command to run it;
  - notes.md : which clause of the property is broken and how; what specifically is needed for it to manifest; the commands you actually ran and their results (existing suite with the change: pass counts; demonstration with the change: fails; demonstration without the change: passes).
Verify all of that by actually running it. When you are done, restore the worktree's tracked files (`git -C {w} checkout -- .` and remove any test file you added under crates/kira/tests), leaving only the untracked out/ directory. Do not delete the worktree. Delete {w}/target at the end to save disk space.

In your final message, report for each change: one-sentence description, files touched, what it needs to manifest, and the exact observable symptom.


Other people have already produced the following changes for this property; yours must use a DIFFERENT mechanism, code site and trigger than each of these:
{chr(10).join(prev)}

Note: this tree already contains a number of recent bug fixes (see `git log --oneline | head -30`); do not simply revert one of those commits.
"""
    open(f"/tmp/seedp/prompt{rnd}_{pid}.txt", "w").write(text)
    print(pid, "ready", w)
