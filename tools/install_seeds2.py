#!/usr/bin/env python3
"""Round 2+: copies confirmed seeded changes from a staging dir (<stage>/<Cxx>-m<k>/ with confirm.json) into
/verif/seeded/<Cxx>-m<k+offset>/ and writes meta.json. usage: install_seeds2.py <stage> <offset>"""
import json, os, shutil, sys
DESC = {
 "C01-m3": ("Tweenable for Duration interpolates with unsigned arithmetic (a + (b-a)*t)", "a compressor attack/release duration tweened to a SHORTER value over more than one internal buffer (or a Mapping<Duration> with a decreasing output range) -> audio-thread panic"),
 "C01-m4": ("Renderer downmixes to mono before clamping", "a one-channel device and either an over-full-scale signal asymmetric between L and R, or (+inf,-inf) frames -> wrong mean / NaN written"),
 "C02-m3": ("Mixer::on_start_processing adopts send tracks before sub-tracks", "two threads: the gameplay thread adds a send track and a track routed to it between the audio thread's two ring drains -> the route is dropped for one callback"),
 "C02-m4": ("a paused track stops advancing its volume / send-volume tweens", "set_volume / set_send with a tween while the track is paused, then resume"),
 "C03-m3": ("PlaybackStateManager::update applies a stale 'fade finished' flag to a scheduled resume", "a fade still in flight that completes in exactly the update in which a resume_at start time arrives"),
 "C03-m4": ("StaticSound::read_commands reads stop before pause/resume", "stop together with pause/resume for the same static sound between the same two callbacks"),
 "C04-m3": ("StaticSound::read_commands applies set_loop_region after the seeks", "set_loop_region and seek_to/seek_by in the same callback interval, the seek target wrapped by the old region"),
 "C04-m4": ("Transport::seek_to backward branch uses <= : a backward seek to exactly loop start lands on loop end", "a loop region and a backward seek resolving exactly to loop_start"),
 "C05-m3": ("Renderer::on_start_processing drains modulators, clocks, listeners before the mixer", "two threads: add_clock + start + play(start_time = that clock) landing after the clocks were drained and before the track drains its sounds -> sound cancelled"),
 "C05-m4": ("Clock::on_start_processing reads reset only together with set_ticking(false)", "clock.stop(); clock.start() between the same two callbacks (and a later pause())"),
 "C07-m3": ("StaticSound::read_commands skips pause/resume readers when a stop is present", "pause()/resume() and stop() for a static sound between the same two callbacks with a stop fade longer than one callback"),
 "C07-m4": ("sub-track Track::on_start_processing adopts new sounds after running their on_start_processing", "a command issued on a sound handle (played on a sub-track) before the sound's first callback"),
 "C08-m3": ("a paused track skips its per-callback remove-and-add step", "a fully paused sub-track and a child-track handle (or sound) dropped/created during that time"),
 "C08-m4": ("Track::should_be_removed: 'all children removable' simplified to 'no children left'", "nested tracks whose parent handle is dropped before or together with the last child's handle -> removal one callback late per level"),
 "C10-m3": ("PlaybackStateManager::update: WaitingToResume on a removed clock stops without reporting a change", "streaming sound paused, resume_at(clock time), clock handle dropped before that time -> decoder never released"),
 "C10-m4": ("StreamingSound::process 'waiting for data' early return moved above the state-machine update", "stop()/pause() while the decoder is starved or stalled"),
}
stage, off = sys.argv[1], int(sys.argv[2])
DESC.update(json.load(open(sys.argv[3])) if len(sys.argv) > 3 else {})
dst = "/verif/seeded"
for name in sorted(os.listdir(stage)):
    d = os.path.join(stage, name)
    cf = os.path.join(d, "confirm.json")
    if not os.path.exists(cf): print("unconfirmed", name); continue
    c, m = name.split("-m"); sid = f"{c}-m{int(m)+off}"
    conf = json.load(open(cf))
    ok = conf.get("applies") and conf["stock_suite_with_patch"].startswith("pass") and conf["demo_with_patch"] == "fail" and conf["demo_without_patch"] == "pass"
    if not ok: print("NOT KEPT", sid, conf); continue
    out = os.path.join(dst, sid); os.makedirs(out, exist_ok=True)
    old = json.load(open(os.path.join(out, "meta.json"))) if os.path.exists(os.path.join(out, "meta.json")) else {}
    for f in ("patch.diff", "demo_test.rs", "demo_test.patch", "notes.md"):
        if f == "patch.diff" and old.get("rebased"): continue
        if os.path.exists(os.path.join(d, f)): shutil.copy(os.path.join(d, f), out)
    what, needs = DESC.get(sid, ("", ""))
    if isinstance(what, list): what, needs = what
    meta = {"id": sid, "property": c, "change": what, "needs_to_manifest": needs,
            "origin": f"written by an independent sub-agent (round {(int(m)+off+1)//2}) given only the property text, the list of earlier changes to avoid, and a scratch worktree",
            "confirmed": {"what_was_run": "tools/confirm_seeds.sh in a scratch worktree: `cargo test -p kira --offline` with the patch; the demonstration with and without the patch", **conf},
            "detected_by": old.get("detected_by", []), "detection_notes": old.get("detection_notes", "")}
    if old.get("rebased"): meta["rebased"] = old["rebased"]
    json.dump(meta, open(os.path.join(out, "meta.json"), "w"), indent=1)
    print("kept", sid)
