#!/bin/bash
# usage: tools/confirm_seeds.sh <seed-dir>...   (each dir holds patch.diff + demo_test.rs [+ demo_test.patch])
# Confirms in ONE scratch worktree (outside /repo and /verif): patch applies and compiles, the stock
# kira test suite still passes with it, the demonstration fails with it and passes without it.
# Writes <seed-dir>/confirm.json. The scratch worktree and its build output are removed at the end.
set -u
W=/tmp/seedconfirm
git -C /repo worktree remove --force $W >/dev/null 2>&1
git -C /repo worktree add -q $W HEAD || exit 2
cp /repo/Cargo.lock $W/
trap 'git -C /repo worktree remove --force $W >/dev/null 2>&1; rm -rf $W' EXIT
DIRS=(); for D in "$@"; do DIRS+=("$(realpath "$D")"); done
cd $W
export CARGO_NET_OFFLINE=true
run_demo() { # prints pass/fail
	if [ -f "$1/demo_test.patch" ]; then
		git apply "$1/demo_test.patch" || { echo "demo-patch-failed"; return; }
		if timeout 900 cargo test -p kira --offline --lib >/tmp/seedconfirm.demo.log 2>&1; then echo pass; else echo fail; fi
		git apply -R "$1/demo_test.patch"
	else
		cp "$1/demo_test.rs" crates/kira/tests/seed_demo.rs
		if timeout 900 cargo test -p kira --offline --test seed_demo >/tmp/seedconfirm.demo.log 2>&1; then echo pass; else echo fail; fi
		rm -f crates/kira/tests/seed_demo.rs
	fi
}
for D in "${DIRS[@]}"; do
	git checkout -q -- . ; git clean -fdq crates
	base_demo=$(run_demo "$D")
	if ! git apply "$D/patch.diff"; then echo "{\"applies\": false}" > "$D/confirm.json"; echo "$D: patch does not apply"; continue; fi
	if timeout 1800 cargo test -p kira --offline >/tmp/seedconfirm.suite.log 2>&1; then suite=pass; else suite=fail; fi
	counts=$(grep -E '^test result' /tmp/seedconfirm.suite.log | awk '{p+=$4; f+=$6} END {print p" passed, "f" failed"}')
	mut_demo=$(run_demo "$D")
	git checkout -q -- . ; git clean -fdq crates
	echo "{\"applies\": true, \"stock_suite_with_patch\": \"$suite ($counts)\", \"demo_with_patch\": \"$mut_demo\", \"demo_without_patch\": \"$base_demo\", \"suite_cmd\": \"cargo test -p kira --offline\", \"confirmed_at_repo_commit\": \"$(git -C /repo rev-parse --short HEAD)\"}" > "$D/confirm.json"
	echo "$D: suite=$suite ($counts) demo_with=$mut_demo demo_without=$base_demo"
done
