#!/bin/bash
# usage: tools/mk_agent_ws.sh <ID>   — scratch workspace for developing one check in isolation:
#   /tmp/agent_<ID>/repo     git worktree of /repo HEAD (apply seeded patches here, never in /repo)
#   /tmp/agent_<ID>/harness  copy of /verif/harness whose kira dependency points at that worktree
#   /tmp/agent_<ID>/target   its own cargo target dir
set -e
ID=$1; W=/tmp/agent_$ID
git -C /repo worktree remove --force $W/repo >/dev/null 2>&1 || true
rm -rf $W; mkdir -p $W
git -C /repo worktree add -q $W/repo HEAD
cp /repo/Cargo.lock $W/repo/
cp -r /verif/harness $W/harness
sed -i "s|path = \"/repo/crates/kira\"|path = \"$W/repo/crates/kira\"|" $W/harness/Cargo.toml
sed -i "s|target-dir = \"/verif/target\"|target-dir = \"$W/target\"|" $W/harness/.cargo/config.toml
echo "$W ready"
